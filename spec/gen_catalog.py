#!/usr/bin/env python3
"""Writes spec/Catalog.tla from the table below.

The table is a hand transcription of the AMQP 0-9-1 specification
(amqp0-9-1.xml: classes connection 10, channel 20, exchange 40, queue 50,
basic 60, tx 90), the RabbitMQ extensions (confirm 85, exchange.bind/unbind,
basic.nack, connection.blocked/unblocked/update-secret, default values of
amqp-rabbitmq-0.9.1.json) and the overrides of codegen/extensions.xml
(start-ok response default "", out-of-band / channel-id "0", queue-name
length 256).  It is NOT derived from pamqp/commands.py.  TLA+ has no
string-to-code-point function, so this script only exists to spell string
defaults as code-point tuples; it is run by hand, Catalog.tla is committed.

arg = (name, wire type, default) ; default None = the specification gives none.
"""
import os

N = None
T, F = True, False
CATALOG = [
    # class connection = 10
    ('Connection', 10, [
        ('Start', 10, ['StartOk'], [('version_major', 'octet', 0), ('version_minor', 'octet', 9),
                                    ('server_properties', 'table', {}), ('mechanisms', 'longstr', 'PLAIN'),
                                    ('locales', 'longstr', 'en_US')]),
        ('StartOk', 11, [], [('client_properties', 'table', {}), ('mechanism', 'shortstr', 'PLAIN'),
                             ('response', 'longstr', ''), ('locale', 'shortstr', 'en_US')]),
        ('Secure', 20, ['SecureOk'], [('challenge', 'longstr', N)]),
        ('SecureOk', 21, [], [('response', 'longstr', N)]),
        ('Tune', 30, ['TuneOk'], [('channel_max', 'short', 0), ('frame_max', 'long', 0), ('heartbeat', 'short', 0)]),
        ('TuneOk', 31, [], [('channel_max', 'short', 0), ('frame_max', 'long', 0), ('heartbeat', 'short', 0)]),
        ('Open', 40, ['OpenOk'], [('virtual_host', 'shortstr', '/'), ('capabilities', 'shortstr', ''),
                                  ('insist', 'bit', F)]),
        ('OpenOk', 41, [], [('known_hosts', 'shortstr', '')]),
        ('Close', 50, ['CloseOk'], [('reply_code', 'short', N), ('reply_text', 'shortstr', ''),
                                    ('class_id', 'short', N), ('method_id', 'short', N)]),
        ('CloseOk', 51, [], []),
        ('Blocked', 60, [], [('reason', 'shortstr', '')]),
        ('Unblocked', 61, [], []),
        ('UpdateSecret', 70, ['UpdateSecretOk'], [('new_secret', 'longstr', N), ('reason', 'shortstr', N)]),
        ('UpdateSecretOk', 71, [], []),
    ]),
    ('Channel', 20, [
        ('Open', 10, ['OpenOk'], [('out_of_band', 'shortstr', '0')]),
        ('OpenOk', 11, [], [('channel_id', 'longstr', '0')]),
        ('Flow', 20, ['FlowOk'], [('active', 'bit', N)]),
        ('FlowOk', 21, [], [('active', 'bit', N)]),
        ('Close', 40, ['CloseOk'], [('reply_code', 'short', N), ('reply_text', 'shortstr', ''),
                                    ('class_id', 'short', N), ('method_id', 'short', N)]),
        ('CloseOk', 41, [], []),
    ]),
    ('Exchange', 40, [
        ('Declare', 10, ['DeclareOk'], [('ticket', 'short', 0), ('exchange', 'shortstr', ''),
                                        ('exchange_type', 'shortstr', 'direct'), ('passive', 'bit', F),
                                        ('durable', 'bit', F), ('auto_delete', 'bit', F), ('internal', 'bit', F),
                                        ('nowait', 'bit', F), ('arguments', 'table', {})]),
        ('DeclareOk', 11, [], []),
        ('Delete', 20, ['DeleteOk'], [('ticket', 'short', 0), ('exchange', 'shortstr', ''),
                                      ('if_unused', 'bit', F), ('nowait', 'bit', F)]),
        ('DeleteOk', 21, [], []),
        ('Bind', 30, ['BindOk'], [('ticket', 'short', 0), ('destination', 'shortstr', ''), ('source', 'shortstr', ''),
                                  ('routing_key', 'shortstr', ''), ('nowait', 'bit', F), ('arguments', 'table', {})]),
        ('BindOk', 31, [], []),
        ('Unbind', 40, ['UnbindOk'], [('ticket', 'short', 0), ('destination', 'shortstr', ''),
                                      ('source', 'shortstr', ''), ('routing_key', 'shortstr', ''),
                                      ('nowait', 'bit', F), ('arguments', 'table', {})]),
        ('UnbindOk', 51, [], []),          # RabbitMQ numbers unbind-ok 51, not 41
    ]),
    ('Queue', 50, [
        ('Declare', 10, ['DeclareOk'], [('ticket', 'short', 0), ('queue', 'shortstr', ''), ('passive', 'bit', F),
                                        ('durable', 'bit', F), ('exclusive', 'bit', F), ('auto_delete', 'bit', F),
                                        ('nowait', 'bit', F), ('arguments', 'table', {})]),
        ('DeclareOk', 11, [], [('queue', 'shortstr', N), ('message_count', 'long', N), ('consumer_count', 'long', N)]),
        ('Bind', 20, ['BindOk'], [('ticket', 'short', 0), ('queue', 'shortstr', ''), ('exchange', 'shortstr', ''),
                                  ('routing_key', 'shortstr', ''), ('nowait', 'bit', F), ('arguments', 'table', {})]),
        ('BindOk', 21, [], []),
        ('Purge', 30, ['PurgeOk'], [('ticket', 'short', 0), ('queue', 'shortstr', ''), ('nowait', 'bit', F)]),
        ('PurgeOk', 31, [], [('message_count', 'long', N)]),
        ('Delete', 40, ['DeleteOk'], [('ticket', 'short', 0), ('queue', 'shortstr', ''), ('if_unused', 'bit', F),
                                      ('if_empty', 'bit', F), ('nowait', 'bit', F)]),
        ('DeleteOk', 41, [], [('message_count', 'long', N)]),
        ('Unbind', 50, ['UnbindOk'], [('ticket', 'short', 0), ('queue', 'shortstr', ''), ('exchange', 'shortstr', ''),
                                      ('routing_key', 'shortstr', ''), ('arguments', 'table', {})]),
        ('UnbindOk', 51, [], []),
    ]),
    ('Basic', 60, [
        ('Qos', 10, ['QosOk'], [('prefetch_size', 'long', 0), ('prefetch_count', 'short', 0), ('global_', 'bit', F)]),
        ('QosOk', 11, [], []),
        ('Consume', 20, ['ConsumeOk'], [('ticket', 'short', 0), ('queue', 'shortstr', ''),
                                        ('consumer_tag', 'shortstr', ''), ('no_local', 'bit', F), ('no_ack', 'bit', F),
                                        ('exclusive', 'bit', F), ('nowait', 'bit', F), ('arguments', 'table', {})]),
        ('ConsumeOk', 21, [], [('consumer_tag', 'shortstr', N)]),
        ('Cancel', 30, ['CancelOk'], [('consumer_tag', 'shortstr', N), ('nowait', 'bit', F)]),
        ('CancelOk', 31, [], [('consumer_tag', 'shortstr', N)]),
        ('Publish', 40, [], [('ticket', 'short', 0), ('exchange', 'shortstr', ''), ('routing_key', 'shortstr', ''),
                             ('mandatory', 'bit', F), ('immediate', 'bit', F)]),
        ('Return', 50, [], [('reply_code', 'short', N), ('reply_text', 'shortstr', ''), ('exchange', 'shortstr', ''),
                            ('routing_key', 'shortstr', N)]),
        ('Deliver', 60, [], [('consumer_tag', 'shortstr', N), ('delivery_tag', 'longlong', N),
                             ('redelivered', 'bit', F), ('exchange', 'shortstr', ''), ('routing_key', 'shortstr', N)]),
        ('Get', 70, ['GetOk', 'GetEmpty'], [('ticket', 'short', 0), ('queue', 'shortstr', ''), ('no_ack', 'bit', F)]),
        ('GetOk', 71, [], [('delivery_tag', 'longlong', N), ('redelivered', 'bit', F), ('exchange', 'shortstr', ''),
                           ('routing_key', 'shortstr', N), ('message_count', 'long', N)]),
        ('GetEmpty', 72, [], [('cluster_id', 'shortstr', '')]),
        ('Ack', 80, [], [('delivery_tag', 'longlong', 0), ('multiple', 'bit', F)]),
        ('Reject', 90, [], [('delivery_tag', 'longlong', N), ('requeue', 'bit', T)]),
        ('RecoverAsync', 100, [], [('requeue', 'bit', F)]),
        ('Recover', 110, ['RecoverOk'], [('requeue', 'bit', F)]),
        ('RecoverOk', 111, [], []),
        ('Nack', 120, [], [('delivery_tag', 'longlong', 0), ('multiple', 'bit', F), ('requeue', 'bit', T)]),
    ]),
    ('Tx', 90, [
        ('Select', 10, ['SelectOk'], []), ('SelectOk', 11, [], []),
        ('Commit', 20, ['CommitOk'], []), ('CommitOk', 21, [], []),
        ('Rollback', 30, ['RollbackOk'], []), ('RollbackOk', 31, [], []),
    ]),
    ('Confirm', 85, [
        ('Select', 10, ['SelectOk'], [('nowait', 'bit', F)]), ('SelectOk', 11, [], []),
    ]),
]

# Validation constraints on SEND (property C13): (class, method, argument) -> constraint
EXCHANGE_NAME = [('Exchange.Declare', 'exchange'), ('Exchange.Delete', 'exchange'),
                 ('Exchange.Bind', 'destination'), ('Exchange.Bind', 'source'),
                 ('Exchange.Unbind', 'destination'), ('Exchange.Unbind', 'source'),
                 ('Queue.Bind', 'exchange'), ('Queue.Unbind', 'exchange'),
                 ('Basic.Publish', 'exchange'), ('Basic.Return', 'exchange'),
                 ('Basic.Deliver', 'exchange'), ('Basic.GetOk', 'exchange')]
QUEUE_NAME = [('Queue.Declare', 'queue'), ('Queue.DeclareOk', 'queue'), ('Queue.Bind', 'queue'),
              ('Queue.Purge', 'queue'), ('Queue.Delete', 'queue'), ('Queue.Unbind', 'queue'),
              ('Basic.Consume', 'queue'), ('Basic.Get', 'queue')]
FIXED = [('Connection.Open', 'capabilities', ''), ('Connection.Open', 'insist', False),
         ('Connection.OpenOk', 'known_hosts', ''), ('Channel.Open', 'out_of_band', '0'),
         ('Channel.OpenOk', 'channel_id', '0'), ('Basic.GetEmpty', 'cluster_id', '')]
MAXLEN = [('Connection.Open', 'virtual_host', 127)]

PROPERTIES = [('content_type', 'shortstr'), ('content_encoding', 'shortstr'), ('headers', 'table'),
              ('delivery_mode', 'octet'), ('priority', 'octet'), ('correlation_id', 'shortstr'),
              ('reply_to', 'shortstr'), ('expiration', 'shortstr'), ('message_id', 'shortstr'),
              ('timestamp', 'timestamp'), ('message_type', 'shortstr'), ('user_id', 'shortstr'),
              ('app_id', 'shortstr'), ('cluster_id', 'shortstr')]

REPLY_CODES = [  # value, NAME, kind
    (311, 'CONTENT-TOO-LARGE', 'soft'), (312, 'NO-ROUTE', 'soft'), (313, 'NO-CONSUMERS', 'soft'),
    (320, 'CONNECTION-FORCED', 'hard'), (402, 'INVALID-PATH', 'hard'), (403, 'ACCESS-REFUSED', 'soft'),
    (404, 'NOT-FOUND', 'soft'), (405, 'RESOURCE-LOCKED', 'soft'), (406, 'PRECONDITION-FAILED', 'soft'),
    (501, 'FRAME-ERROR', 'hard'), (502, 'SYNTAX-ERROR', 'hard'), (503, 'COMMAND-INVALID', 'hard'),
    (504, 'CHANNEL-ERROR', 'hard'), (505, 'UNEXPECTED-FRAME', 'hard'), (506, 'RESOURCE-ERROR', 'hard'),
    (530, 'NOT-ALLOWED', 'hard'), (540, 'NOT-IMPLEMENTED', 'hard'), (541, 'INTERNAL-ERROR', 'hard')]

NAME_CHARS = ("abcdefghijklmnopqrstuvwxyz" "ABCDEFGHIJKLMNOPQRSTUVWXYZ" "0123456789" "-_.:@#,/ ")


def cps(s):
    return '<<' + ', '.join(str(ord(c)) for c in s) + '>>'


def tla_default(ty, d):
    if d is None:
        return '[t |-> "nodef"]'
    if isinstance(d, bool):
        return '[t |-> "bool", b |-> %s]' % ('TRUE' if d else 'FALSE')
    if isinstance(d, int):
        return '[t |-> "int", neg |-> FALSE, mag |-> %s]' % ('<<%d>>' % d if d else '<<>>')
    if isinstance(d, str):
        return '[t |-> "str", cp |-> %s]' % cps(d)
    if isinstance(d, dict):
        return '[t |-> "table", e |-> <<>>]'
    raise ValueError(d)


def doc_token(d):
    if d is None:
        return ''
    if isinstance(d, bool):
        return 'True' if d else 'False'
    if isinstance(d, dict):
        return '{}'
    if d == '':
        return "''"
    return str(d)


def main():
    out = []
    w = out.append
    w('------------------------------ MODULE Catalog ------------------------------')
    w('(***************************************************************************)')
    w('(* GENERATED by spec/gen_catalog.py from a hand transcription of the AMQP   *)')
    w('(* 0-9-1 specification + RabbitMQ extensions + codegen/extensions.xml.      *)')
    w('(* Not derived from pamqp/commands.py.  Properties C14, C17, C13.          *)')
    w('(***************************************************************************)')
    w('EXTENDS Naturals, Sequences, FiniteSets')
    w('')
    w('Methods == <<')
    rows = []
    for cname, cid, methods in CATALOG:
        for mname, mid, resp, args in methods:
            full = '%s.%s' % (cname, mname)
            a = ', '.join('[n |-> "%s", ty |-> "%s", def |-> %s, doc |-> "%s"]' %
                          (n, ty, tla_default(ty, d), doc_token(d)) for n, ty, d in args)
            r = ', '.join('"%s.%s"' % (cname, x) for x in resp)
            rows.append('  [name |-> "%s", cid |-> %d, mid |-> %d, resp |-> <<%s>>,\n   args |-> <<%s>>]'
                        % (full, cid, mid, r, a))
    w(',\n'.join(rows))
    w('>>')
    w('')
    w('Properties == <<')
    w(',\n'.join('  [n |-> "%s", ty |-> "%s", flag |-> %d]' % (n, ty, 1 << (15 - i))
                 for i, (n, ty) in enumerate(PROPERTIES)))
    w('>>')
    w('')
    w('ReplyCodes == <<')
    w(',\n'.join('  [value |-> %d, name |-> "%s", kind |-> "%s"]' % r for r in REPLY_CODES))
    w('>>')
    w('')
    w('\\* code points allowed in exchange and queue names: letters, digits, - _ . : @ # , / and space')
    w('NameChars == {' + ', '.join(str(ord(c)) for c in NAME_CHARS) + '}')
    w('')
    w('ExchangeNameArgs == {' + ', '.join('<<"%s", "%s">>' % x for x in EXCHANGE_NAME) + '}')
    w('QueueNameArgs == {' + ', '.join('<<"%s", "%s">>' % x for x in QUEUE_NAME) + '}')
    w('MaxLenArgs == {' + ', '.join('<<"%s", "%s", %d>>' % x for x in MAXLEN) + '}')
    w('FixedArgs == {' + ', '.join('<<"%s", "%s", %s>>' % (c, a, tla_default('', v)) for c, a, v in FIXED) + '}')
    w('')
    w('Constants == [FRAME_METHOD |-> 1, FRAME_HEADER |-> 2, FRAME_BODY |-> 3, FRAME_HEARTBEAT |-> 8,')
    w('              FRAME_MIN_SIZE |-> 4096, FRAME_END |-> 206, FRAME_HEADER_SIZE |-> 7, FRAME_MAX_SIZE |-> 131072,')
    w('              VERSION |-> <<0, 9, 1>>, AMQP |-> <<65, 77, 81, 80>>, FRAME_END_CHAR |-> <<206>>, REPLY_SUCCESS |-> 200]')
    w('')
    w('\\* ---- lookups ----')
    w('MethodNames == { Methods[i].name : i \\in 1..Len(Methods) }')
    w('MethodByName(nm) == Methods[CHOOSE i \\in 1..Len(Methods) : Methods[i].name = nm]')
    w('HasMethodId(c, m) == \\E i \\in 1..Len(Methods) : Methods[i].cid = c /\\ Methods[i].mid = m')
    w('MethodById(c, m) == Methods[CHOOSE i \\in 1..Len(Methods) : Methods[i].cid = c /\\ Methods[i].mid = m]')
    w('ClassOf(nm) == MethodByName(nm).cid')
    w('Synchronous(m) == m.resp # <<>>')
    w('ArgNames(m) == [i \\in 1..Len(m.args) |-> m.args[i].n]')
    w('\\* RPC metadata in use (Rpc.tla): the valid replies of a request, whether it waits, reply matching')
    w('Resp(nm) == { MethodByName(nm).resp[j] : j \\in 1..Len(MethodByName(nm).resp) }')
    w('Waits(nm) == Synchronous(MethodByName(nm))')
    w('IsReplyTo(r, nm) == nm \\in MethodNames /\\ r \\in Resp(nm)')
    w('')
    w('\\* ---- internal consistency of the catalogue (checked by TLC as ASSUMEs in MC_Catalog) ----')
    w('CatalogWellFormed ==')
    w('    /\\ Len(Methods) = 64')
    w('    /\\ Cardinality(MethodNames) = 64')
    w('    /\\ Cardinality({ <<Methods[i].cid, Methods[i].mid>> : i \\in 1..Len(Methods) }) = 64')
    w('    /\\ \\A i \\in 1..Len(Methods) : \\A j \\in 1..Len(Methods[i].resp) :')
    w('          /\\ Methods[i].resp[j] \\in MethodNames')
    w('          /\\ ClassOf(Methods[i].resp[j]) = Methods[i].cid')
    w('    /\\ \\A i \\in 1..Len(Methods) : Cardinality({ Methods[i].args[j].n : j \\in 1..Len(Methods[i].args) }) = Len(Methods[i].args)')
    w('    /\\ Len(Properties) = 14')
    w('    /\\ \\A i \\in 1..14 : Properties[i].flag = 2 ^ (16 - i)')
    w('    /\\ Len(ReplyCodes) = 18 /\\ Cardinality({ ReplyCodes[i].value : i \\in 1..18 }) = 18')
    w('    /\\ \\A x \\in ExchangeNameArgs \\cup QueueNameArgs : \\E j \\in 1..Len(MethodByName(x[1]).args) :')
    w('           MethodByName(x[1]).args[j].n = x[2] /\\ MethodByName(x[1]).args[j].ty = "shortstr"')
    w('=============================================================================')
    path = os.path.join(os.path.dirname(os.path.abspath(__file__)), 'Catalog.tla')
    open(path, 'w').write('\n'.join(out) + '\n')


if __name__ == '__main__':
    main()
