------------------------------- MODULE Utf8 -------------------------------
(***************************************************************************)
(* UTF-8 per Unicode 15 Table 3-7 (well-formed byte sequences).            *)
(* A text is a sequence of code points 0..0x10FFFF.  Encoding a surrogate  *)
(* code point is an error (Python: UnicodeEncodeError).                    *)
(* Mirrors: str.encode('utf-8') / bytes.decode('utf-8').                   *)
(***************************************************************************)
EXTENDS Bytes

IsSurrogate(c) == c >= 55296 /\ c <= 57343          \* D800..DFFF
IsScalar(c) == c >= 0 /\ c <= 1114111 /\ ~IsSurrogate(c)

EncCp(c) == IF c < 128 THEN << c >>
            ELSE IF c < 2048 THEN << 192 + (c \div 64), 128 + (c % 64) >>
            ELSE IF c < 65536 THEN << 224 + (c \div 4096), 128 + ((c \div 64) % 64), 128 + (c % 64) >>
            ELSE << 240 + (c \div 262144), 128 + ((c \div 4096) % 64), 128 + ((c \div 64) % 64), 128 + (c % 64) >>

Utf8Len(c) == IF c < 128 THEN 1 ELSE IF c < 2048 THEN 2 ELSE IF c < 65536 THEN 3 ELSE 4

Encodable(cps) == \A i \in 1..Len(cps) : IsScalar(cps[i])

\* concatenation by divide and conquer: O(n log n), recursion depth log n
RECURSIVE EncRange(_, _, _)
EncRange(cps, lo, hi) == IF lo > hi THEN <<>>
                         ELSE IF lo = hi THEN EncCp(cps[lo])
                         ELSE LET mid == (lo + hi) \div 2 IN EncRange(cps, lo, mid) \o EncRange(cps, mid + 1, hi)
Utf8Enc(cps) == EncRange(cps, 1, Len(cps))

RECURSIVE LenRange(_, _, _)
LenRange(cps, lo, hi) == IF lo > hi THEN 0
                         ELSE IF lo = hi THEN Utf8Len(cps[lo])
                         ELSE LET mid == (lo + hi) \div 2 IN LenRange(cps, lo, mid) + LenRange(cps, mid + 1, hi)
Utf8ByteLen(cps) == LenRange(cps, 1, Len(cps))

Cont(b) == b >= 128 /\ b <= 191

\* One character: bytes b[s..e] (s is a lead position, s+1..e are all the continuation bytes that follow).
\* Value of the well-formed sequence or -1.
CharAt(b, s, e) ==
    LET b1 == b[s] n == e - s + 1 IN
    IF b1 < 128 THEN (IF n = 1 THEN b1 ELSE -1)
    ELSE IF b1 >= 194 /\ b1 <= 223 THEN (IF n = 2 THEN (b1 - 192) * 64 + (b[s+1] - 128) ELSE -1)
    ELSE IF b1 >= 224 /\ b1 <= 239 THEN
        IF n = 3 /\ (IF b1 = 224 THEN b[s+1] >= 160 ELSE IF b1 = 237 THEN b[s+1] <= 159 ELSE TRUE)
        THEN (b1 - 224) * 4096 + (b[s+1] - 128) * 64 + (b[s+2] - 128) ELSE -1
    ELSE IF b1 >= 240 /\ b1 <= 244 THEN
        IF n = 4 /\ (IF b1 = 240 THEN b[s+1] >= 144 ELSE IF b1 = 244 THEN b[s+1] <= 143 ELSE TRUE)
        THEN (b1 - 240) * 262144 + (b[s+1] - 128) * 4096 + (b[s+2] - 128) * 64 + (b[s+3] - 128) ELSE -1
    ELSE -1

\* strict decoder: [ok |-> TRUE, cps |-> ...] or [ok |-> FALSE].  Linear: the lead positions are
\* selected first, then every character is decoded independently from its own bytes.
Utf8Dec(b) ==
    IF b = <<>> THEN [ok |-> TRUE, cps |-> <<>>]
    ELSE IF Cont(b[1]) THEN [ok |-> FALSE]
    ELSE LET n     == Len(b)
             leads == SelectSeq([i \in 1..n |-> i], LAMBDA i : ~Cont(b[i]))
             k     == Len(leads)
             cps   == [j \in 1..k |-> CharAt(b, leads[j], IF j < k THEN leads[j+1] - 1 ELSE n)]
         IN IF \E j \in 1..k : cps[j] < 0 THEN [ok |-> FALSE] ELSE [ok |-> TRUE, cps |-> cps]

\* code-point lexicographic order on texts (Python str ordering)
RECURSIVE TextLess(_, _)
TextLess(a, b) == IF b = <<>> THEN FALSE
                  ELSE IF a = <<>> THEN TRUE
                  ELSE IF Head(a) < Head(b) THEN TRUE
                  ELSE IF Head(a) > Head(b) THEN FALSE
                  ELSE TextLess(Tail(a), Tail(b))
=============================================================================
