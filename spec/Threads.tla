------------------------------- MODULE Threads -------------------------------
(***************************************************************************)
(* K threads each run codec calls; a call is Begin -> Step* -> End and     *)
(* works on a buffer.  In the specified design the buffer is LOCAL to the  *)
(* call, so the result of every call is the pure function of its argument  *)
(* under every interleaving (property C16, concurrent callers).  The named *)
(* deviation Dev_SharedScratch (a module-level scratch buffer, the         *)
(* realistic way to break this) is refuted by TLC: that run is the         *)
(* regression test of this model.  Every complete interleaving found here  *)
(* is also a SCHEDULE for the deterministic line-level scheduler of the    *)
(* harness (harness/threads.py), which replays it on real threads.         *)
(***************************************************************************)
EXTENDS Naturals, Sequences, FiniteSets, TLC, Json

CONSTANTS K, StepsPerCall, Dev_SharedScratch

VARIABLES pc,       \* thread -> "idle" | "run" | "done"
          left,     \* thread -> steps still to do in the current call
          local,    \* thread -> buffer of the current call
          scratch,  \* the shared buffer (only used under the deviation)
          result,   \* thread -> result of the finished call
          sched     \* history: the interleaving so far (thread ids), becomes a schedule
tvars == << pc, left, local, scratch, result, sched >>

T == 1..K
Arg(t) == t * 10                                  \* each thread encodes a different value
Pure(t) == [i \in 1..StepsPerCall |-> Arg(t) + i] \* what the call must return

TInit == /\ pc = [t \in T |-> "idle"] /\ left = [t \in T |-> 0] /\ local = [t \in T |-> <<>>]
         /\ scratch = <<>> /\ result = [t \in T |-> <<>>] /\ sched = <<>>

Begin(t) == /\ pc[t] = "idle"
            /\ pc' = [pc EXCEPT ![t] = "run"] /\ left' = [left EXCEPT ![t] = StepsPerCall]
            /\ local' = [local EXCEPT ![t] = <<>>]
            /\ scratch' = IF Dev_SharedScratch THEN <<>> ELSE scratch
            /\ sched' = Append(sched, t) /\ UNCHANGED result

Step(t) == /\ pc[t] = "run" /\ left[t] > 0
           /\ LET x == Arg(t) + (StepsPerCall - left[t] + 1) IN
              IF Dev_SharedScratch THEN scratch' = Append(scratch, x) /\ UNCHANGED local
              ELSE local' = [local EXCEPT ![t] = Append(@, x)] /\ UNCHANGED scratch
           /\ left' = [left EXCEPT ![t] = @ - 1]
           /\ sched' = Append(sched, t) /\ UNCHANGED << pc, result >>

End(t) == /\ pc[t] = "run" /\ left[t] = 0
          /\ result' = [result EXCEPT ![t] = IF Dev_SharedScratch THEN scratch ELSE local[t]]
          /\ pc' = [pc EXCEPT ![t] = "done"]
          /\ sched' = Append(sched, t) /\ UNCHANGED << left, local, scratch >>

TNext == \E t \in T : Begin(t) \/ Step(t) \/ End(t)
TSpec == TInit /\ [][TNext]_tvars

\* every finished call returned the pure function of its own argument
PureResults == \A t \in T : pc[t] = "done" => result[t] = Pure(t)

\* S2C: print every complete interleaving once (run with -workers 1)
AllDone == \A t \in T : pc[t] = "done"
EmitSchedule == AllDone => PrintT(<< "S2C", ToJson([sched |-> sched]) >>)
=============================================================================
