-------------------------------- MODULE Conn --------------------------------
(***************************************************************************)
(* Beyond the listed properties: the life of one AMQP 0-9-1 connection as  *)
(* the frames that cross the wire in both directions (Appendix C item 3).  *)
(* pamqp is sans-io and keeps no connection state; every client built on   *)
(* it implements this machine from what the decoder hands it: the channel  *)
(* number, the frame kind, the method's name / synchronous flag / valid    *)
(* responses, Tune/TuneOk's frame_max and channel_max, the header's body   *)
(* size, the body frames' lengths, and the number of bytes each frame took *)
(* on the wire.  The module is a pure step function over a state record    *)
(* (like Content.Feed) so that the design model (MC_Conn) and the trace    *)
(* specification run the SAME definitions:                                 *)
(*    ConnLegal(cs, e)   may frame e cross the wire now?                       *)
(*    ConnStep(cs, e)    the state after it did                                *)
(* e = [dir |-> "c" | "s", ch, kind |-> "proto" | "method" | "header" |    *)
(*      "body" | "heartbeat", name, size, wire, fm, cm]                    *)
(*   negotiation   proto, Start/StartOk, (Secure/SecureOk)*, Tune/TuneOk,  *)
(*                 Open/OpenOk; TuneOk stays within the server's offer and *)
(*                 never goes below frame-min-size                         *)
(*   frame size    before TuneOk every frame fits frame-min-size, after it *)
(*                 the negotiated frame_max (0 = no limit)                 *)
(*   channels      Open/OpenOk, Close/CloseOk from either side, numbers    *)
(*                 within channel_max; class Connection only on channel 0, *)
(*                 everything else only on an open channel > 0             *)
(*   per channel and direction: content assembly (Content.Feed) and one    *)
(*                 outstanding synchronous request answered by one of its  *)
(*                 valid responses (Catalog.Resp / Waits / IsReplyTo)      *)
(*   shutdown      Close from either side, the closer sends nothing more,  *)
(*                 CloseOk from the other side ends the connection         *)
(***************************************************************************)
EXTENDS Catalog, Content

ConnChans == 0..3
Dirs == {"c", "s"}
FrameMin == 4096                       \* frame-min-size (checked against the code's constant by C17)
Other(d) == IF d = "c" THEN "s" ELSE "c"

NoPend == [c \in ConnChans |-> ""]
NoAsm == [c \in ConnChans |-> Idle]
ConnInit == [phase |-> "init", tuned |-> FALSE, fmax |-> 0, cmax |-> 0, ofm |-> 0, ocm |-> 0, closer |-> "",
             chan |-> [c \in ConnChans |-> "closed"], ccloser |-> [c \in ConnChans |-> ""],
             pend |-> [d \in Dirs |-> NoPend], asm |-> [d \in Dirs |-> NoAsm]]

PreTune == {"init", "hdr", "start", "startok", "secure", "tune"}
Live == {"open", "closing"}

\* methods that only one side may originate (replies follow their request and are not listed)
ClientOnly == {"Basic.Publish", "Basic.Reject", "Basic.RecoverAsync", "Basic.Recover", "Basic.Get", "Basic.Consume",
               "Basic.Qos", "Queue.Declare", "Queue.Bind", "Queue.Unbind", "Queue.Purge", "Queue.Delete",
               "Exchange.Declare", "Exchange.Delete", "Exchange.Bind", "Exchange.Unbind", "Confirm.Select",
               "Tx.Select", "Tx.Commit", "Tx.Rollback", "Connection.UpdateSecret"}
ServerOnly == {"Basic.Deliver", "Basic.Return", "Connection.Blocked", "Connection.Unblocked"}
MayOriginate(d, n) == (n \in ClientOnly => d = "c") /\ (n \in ServerOnly => d = "s")
IsSomeReply(n) == \E m \in MethodNames : n \in Resp(m)

SizeFits(cs, e) == LET lim == IF cs.tuned THEN cs.fmax ELSE FrameMin IN lim = 0 \/ e.wire <= lim

\* TuneOk answers the offer: a limit of 0 in the offer means "no limit", otherwise the answer is a limit not above it
Within(offer, answer) == offer = 0 \/ (answer # 0 /\ answer <= offer)
TuneOkFits(cs, e) == Within(cs.ofm, e.fm) /\ Within(cs.ocm, e.cm) /\ (e.fm = 0 \/ e.fm >= FrameMin)

FrameOf(e) == CASE e.kind = "method" -> [kind |-> "method", name |-> e.name]
                [] e.kind = "header" -> [kind |-> "header", size |-> e.size]
                [] e.kind = "body" -> [kind |-> "body", b |-> [i \in 1..e.size |-> 0]]
                [] OTHER -> [kind |-> "heartbeat"]

SenderMaySpeak(cs, e) == cs.phase = "open" \/ (cs.phase = "closing" /\ e.dir # cs.closer)

Legal0(cs, e) ==
    CASE e.kind = "proto" -> cs.phase = "init" /\ e.dir = "c"
      [] e.kind = "heartbeat" -> cs.phase \in {"tuneok", "opening"} \/ SenderMaySpeak(cs, e)
      [] e.kind = "method" ->
           LET n == e.name IN
           CASE n = "Connection.Start" -> cs.phase = "hdr" /\ e.dir = "s"
             [] n = "Connection.StartOk" -> cs.phase = "start" /\ e.dir = "c"
             [] n = "Connection.Secure" -> cs.phase = "startok" /\ e.dir = "s"
             [] n = "Connection.SecureOk" -> cs.phase = "secure" /\ e.dir = "c"
             [] n = "Connection.Tune" -> cs.phase = "startok" /\ e.dir = "s" /\ (e.fm = 0 \/ e.fm >= FrameMin)
             [] n = "Connection.TuneOk" -> cs.phase = "tune" /\ e.dir = "c" /\ TuneOkFits(cs, e)
             [] n = "Connection.Open" -> cs.phase = "tuneok" /\ e.dir = "c"
             [] n = "Connection.OpenOk" -> cs.phase = "opening" /\ e.dir = "s"
             [] n = "Connection.Close" -> \/ cs.phase = "open"
                                          \/ (cs.phase = "closing" /\ e.dir # cs.closer)      \* both sides close at once
                                          \/ (e.dir = "s" /\ cs.phase \in {"start", "startok", "secure", "tune", "tuneok", "opening"})
             [] n = "Connection.CloseOk" -> cs.phase = "closing" /\ e.dir # cs.closer
             [] n \in {"Connection.Blocked", "Connection.Unblocked"} -> SenderMaySpeak(cs, e) /\ e.dir = "s"
             [] n = "Connection.UpdateSecret" -> SenderMaySpeak(cs, e) /\ e.dir = "c" /\ cs.pend["c"][0] = ""
             [] n = "Connection.UpdateSecretOk" -> SenderMaySpeak(cs, e) /\ e.dir = "s" /\ cs.pend["c"][0] = "Connection.UpdateSecret"
             [] OTHER -> FALSE                       \* no other class on channel 0
      [] OTHER -> FALSE                              \* no content on channel 0

LegalN(cs, e) ==
    LET c == e.ch
        d == e.dir
        mine == cs.asm[d][c]
        theirs == cs.pend[Other(d)][c]
    IN
    /\ SenderMaySpeak(cs, e)
    /\ (cs.cmax = 0 \/ c <= cs.cmax)
    /\ CASE e.kind = "method" ->
              LET n == e.name IN
              CASE n = "Channel.Open" -> cs.chan[c] = "closed" /\ d = "c"
                [] n = "Channel.OpenOk" -> cs.chan[c] = "opening" /\ d = "s"
                [] n = "Channel.Close" -> (cs.chan[c] = "open" /\ mine.mode = "idle") \/ (cs.chan[c] = "closing" /\ d # cs.ccloser[c])
                [] n = "Channel.CloseOk" -> cs.chan[c] = "closing" /\ d # cs.ccloser[c]
                [] ClassOf(n) = 10 -> FALSE          \* class Connection belongs to channel 0
                [] OTHER -> /\ cs.chan[c] = "open" \/ (cs.chan[c] = "closing" /\ d # cs.ccloser[c])
                            /\ mine.mode = "idle"    \* no method inside the sender's own content sequence
                            /\ IF theirs # "" /\ IsReplyTo(n, theirs) THEN TRUE
                               ELSE /\ MayOriginate(d, n)
                                    /\ ~IsSomeReply(n)            \* a reply never travels unrequested
                                    /\ (Waits(n) => cs.pend[d][c] = "")
         [] e.kind \in {"header", "body"} ->
              /\ cs.chan[c] = "open" \/ (cs.chan[c] = "closing" /\ d # cs.ccloser[c])
              /\ Feed(mine, FrameOf(e)).mode # "error"
         [] OTHER -> FALSE                           \* heartbeats and protocol headers belong to channel 0

ConnLegal(cs, e) == /\ e.ch \in ConnChans /\ e.dir \in Dirs /\ cs.phase # "closed"
                /\ SizeFits(cs, e)
                /\ IF e.ch = 0 THEN Legal0(cs, e) ELSE LegalN(cs, e)

Step0(cs, e) ==
    IF e.kind # "method" THEN (IF e.kind = "proto" THEN [cs EXCEPT !.phase = "hdr"] ELSE cs)
    ELSE LET n == e.name IN
    CASE n = "Connection.Start" -> [cs EXCEPT !.phase = "start"]
      [] n = "Connection.StartOk" -> [cs EXCEPT !.phase = "startok"]
      [] n = "Connection.Secure" -> [cs EXCEPT !.phase = "secure"]
      [] n = "Connection.SecureOk" -> [cs EXCEPT !.phase = "startok"]
      [] n = "Connection.Tune" -> [cs EXCEPT !.phase = "tune", !.ofm = e.fm, !.ocm = e.cm]
      [] n = "Connection.TuneOk" -> [cs EXCEPT !.phase = "tuneok", !.tuned = TRUE, !.fmax = e.fm, !.cmax = e.cm]
      [] n = "Connection.Open" -> [cs EXCEPT !.phase = "opening"]
      [] n = "Connection.OpenOk" -> [cs EXCEPT !.phase = "open"]
      [] n = "Connection.Close" -> IF cs.phase = "closing" THEN cs ELSE [cs EXCEPT !.phase = "closing", !.closer = e.dir]
      [] n = "Connection.CloseOk" -> [cs EXCEPT !.phase = "closed", !.chan = [c \in ConnChans |-> "closed"],
                                                !.pend = [d \in Dirs |-> NoPend], !.asm = [d \in Dirs |-> NoAsm]]
      [] n = "Connection.UpdateSecret" -> [cs EXCEPT !.pend["c"][0] = n]
      [] n = "Connection.UpdateSecretOk" -> [cs EXCEPT !.pend["c"][0] = ""]
      [] OTHER -> cs

StepN(cs, e) ==
    LET c == e.ch
        d == e.dir
        theirs == cs.pend[Other(d)][c]
    IN
    CASE e.kind = "method" ->
           LET n == e.name
               fed == Settle(Feed(cs.asm[d][c], FrameOf(e)))
           IN
           CASE n = "Channel.Open" -> [cs EXCEPT !.chan[c] = "opening"]
             [] n = "Channel.OpenOk" -> [cs EXCEPT !.chan[c] = "open"]
             [] n = "Channel.Close" -> IF cs.chan[c] = "closing" THEN cs
                                       ELSE [cs EXCEPT !.chan[c] = "closing", !.ccloser[c] = d]
             [] n = "Channel.CloseOk" -> [cs EXCEPT !.chan[c] = "closed", !.ccloser[c] = "", !.pend["c"][c] = "", !.pend["s"][c] = "",
                                                    !.asm["c"][c] = Idle, !.asm["s"][c] = Idle]
             [] OTHER -> IF theirs # "" /\ IsReplyTo(n, theirs)
                         THEN [cs EXCEPT !.pend[Other(d)][c] = "", !.asm[d][c] = fed]
                         ELSE [cs EXCEPT !.pend[d][c] = IF Waits(n) THEN n ELSE @, !.asm[d][c] = fed]
      [] OTHER -> [cs EXCEPT !.asm[d][c] = Settle(Feed(@, FrameOf(e)))]

ConnStep(cs, e) == IF e.ch = 0 THEN Step0(cs, e) ELSE StepN(cs, e)
=============================================================================
