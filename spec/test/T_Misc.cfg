
