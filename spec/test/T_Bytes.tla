---- MODULE T_Bytes ----
EXTENDS Bytes, TLC
ASSUME Take(<<1,2,3>>, 5) = <<1,2,3>> /\ Drop(<<1,2,3>>, 5) = <<>> /\ Slice(<<1,2,3,4>>,1,3) = <<2,3>>
ASSUME Strip(<<0,0,1,0>>) = <<1,0>>
ASSUME MagOfNat(65536) = <<1,0,0>> /\ NatOfMag(<<1,0,0>>) = 65536
ASSUME AddMag(<<255,255>>, <<1>>) = <<1,0,0>>
ASSUME SubMag(<<1,0,0>>, <<1>>) = <<255,255>>
ASSUME MulSmall(<<1,0>>, 86400) = MagOfNat(256*86400)
ASSUME DivModSmall(MagOfNat(1000003), 1000) = << MagOfNat(1000), 3 >>
ASSUME Twos(IntOf(-1), 1) = <<255>> /\ Twos(IntOf(-128), 1) = <<128>> /\ Twos(IntOf(-32768), 2) = <<128,0>>
ASSUME Twos(IntOf(-2), 4) = <<255,255,255,254>>
ASSUME FromTwos(<<255,254>>) = IntOf(-2) /\ FromTwos(<<128>>) = IntOf(-128) /\ FromTwos(<<127>>) = IntOf(127)
ASSUME FitsSigned(IntOf(-128),1) /\ ~FitsSigned(IntOf(-129),1) /\ FitsSigned(IntOf(127),1) /\ ~FitsSigned(IntOf(128),1)
ASSUME FitsUnsigned(IntOf(65535),2) /\ ~FitsUnsigned(IntOf(65536),2) /\ ~FitsUnsigned(IntOf(-1),2)
ASSUME CmpInt(IntOf(-5), IntOf(3)) = -1 /\ CmpInt(IntOf(-5), IntOf(-7)) = 1 /\ CmpInt(IntOf(0), IntOf(0)) = 0
ASSUME Pow2Mag(63) = <<128,0,0,0,0,0,0,0>>
ASSUME U32(16909060) = <<1,2,3,4>> /\ U16(258) = <<1,2>>
ASSUME Flat(<< <<1>>, <<>>, <<2,3>> >>) = <<1,2,3>>
ASSUME \A n \in -300..300 : FromTwos(Twos(IntOf(n), 2)) = IntOf(n)
====
