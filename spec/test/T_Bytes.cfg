
