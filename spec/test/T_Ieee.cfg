
