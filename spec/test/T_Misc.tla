---- MODULE T_Misc ----
EXTENDS CivilTime, Dec, Utf8, TLC
ASSUME DaysFromCivil(1970,1,1) = 0 /\ DaysFromCivil(2000,3,1) = 11017 /\ DaysFromCivil(1969,12,31) = -1
ASSUME CivilFromDays(11017) = [y |-> 2000, mo |-> 3, d |-> 1]
ASSUME \A z \in 0..40000 : LET c == CivilFromDays(z) IN DaysFromCivil(c.y, c.mo, c.d) = z
ASSUME EpochOf([y |-> 2106, mo |-> 2, d |-> 7, h |-> 6, mi |-> 28, s |-> 15], 0) = [neg |-> FALSE, mag |-> <<255,255,255,255>>]
ASSUME CivilOf(<<255,255,255,255>>) = [y |-> 2106, mo |-> 2, d |-> 7, h |-> 6, mi |-> 28, s |-> 15]
ASSUME EpochOf([y |-> 1969, mo |-> 12, d |-> 31, h |-> 23, mi |-> 59, s |-> 59], 0) = IntOf(-1)
ASSUME EpochOf([y |-> 1970, mo |-> 1, d |-> 1, h |-> 1, mi |-> 0, s |-> 0], 3600) = IntOf(0)
ASSUME MulSmall(MagOfNat(2932897), 86400) = Year10000
ASSUME ReadTimestamp(MulSmall(Year10000, 1000)).ok = FALSE
ASSUME ReadTimestamp(SubMag(MulSmall(Year10000, 1000), <<1>>)) = [ok |-> TRUE, c |-> [y |-> 9999, mo |-> 12, d |-> 31, h |-> 23, mi |-> 59, s |-> 59], ms |-> 999, millis |-> TRUE]
ASSUME DecNorm(TRUE, <<0,1,5,0>>, -2) = <<TRUE, <<1,5>>, -1>>
ASSUME DecOfWire(1, <<255,255,255,241>>) = <<TRUE, <<1,5>>, -1>>
ASSUME DecFits(FALSE, <<2,1,4,7,4,8,3,6,4,7>>, 0) /\ ~DecFits(FALSE, <<2,1,4,7,4,8,3,6,4,8>>, 0) /\ DecFits(TRUE, <<2,1,4,7,4,8,3,6,4,8>>, 0)
ASSUME DecWire(TRUE, <<1,5>>, -1) = <<1,255,255,255,241>>
ASSUME DecWire(FALSE, <<1,5>>, 2) = <<0,0,0,5,220>>
ASSUME Utf8Enc(<<65, 233, 8364, 128512>>) = <<65, 195,169, 226,130,172, 240,159,152,128>>
ASSUME Utf8Dec(<<65, 195,169, 226,130,172, 240,159,152,128>>) = [ok |-> TRUE, cps |-> <<65, 233, 8364, 128512>>]
ASSUME ~Utf8Dec(<<192,128>>).ok /\ ~Utf8Dec(<<237,160,128>>).ok /\ ~Utf8Dec(<<244,144,128,128>>).ok /\ ~Utf8Dec(<<226,130>>).ok /\ ~Utf8Dec(<<128>>).ok
ASSUME TextLess(<<97>>, <<97,98>>) /\ ~TextLess(<<97,98>>, <<97>>) /\ TextLess(<<>>, <<0>>) /\ ~TextLess(<<1>>,<<1>>)
====
