-------------------------------- MODULE Dec --------------------------------
(***************************************************************************)
(* Decimals.  Abstract value: [neg, digits (Seq(0..9)), exp] meaning       *)
(* (-1)^neg * int(digits) * 10^exp.  Wire form (tag D): scale octet        *)
(* (0..255, unsigned) + 32-bit SIGNED unscaled integer; value =            *)
(* unscaled * 10^-scale.                                                   *)
(* Mirrors: encode.decimal, decode.decimal.                                *)
(***************************************************************************)
EXTENDS Bytes

RECURSIVE StripLeadingZeros(_)
StripLeadingZeros(ds) == IF ds = <<>> THEN <<>> ELSE IF Head(ds) = 0 THEN StripLeadingZeros(Tail(ds)) ELSE ds

RECURSIVE TrailingZeros(_)
TrailingZeros(ds) == IF ds = <<>> THEN 0 ELSE IF ds[Len(ds)] = 0 THEN 1 + TrailingZeros(SubSeq(ds, 1, Len(ds) - 1)) ELSE 0

\* value normal form: no leading/trailing zero digits; zero = <<FALSE, <<>>, 0>>
DecNorm(neg, digits, exp) ==
    LET d1 == StripLeadingZeros(digits) IN
    IF d1 = <<>> THEN << FALSE, <<>>, 0 >>
    ELSE LET tz == TrailingZeros(d1) IN << neg, SubSeq(d1, 1, Len(d1) - tz), exp + tz >>

\* decimal digits of a magnitude
RECURSIVE DigitsOfMag(_)
DigitsOfMag(m) == IF Strip(m) = <<>> THEN <<>>
                  ELSE LET qr == DivModSmall(m, 10) IN Append(DigitsOfMag(qr[1]), qr[2])

\* magnitude of decimal digits
RECURSIVE MagOfDigitsR(_, _, _)
MagOfDigitsR(ds, i, acc) == IF i > Len(ds) THEN acc
                            ELSE MagOfDigitsR(ds, i + 1, AddMag(MulSmall(acc, 10), MagOfNat(ds[i])))
MagOfDigits(ds) == MagOfDigitsR(ds, 1, <<>>)

RECURSIVE MulPow10(_, _)
MulPow10(m, k) == IF k = 0 THEN m ELSE MulPow10(MulSmall(m, 10), k - 1)

\* value of the wire form (scale octet, 4 bytes two's complement) in normal form
DecOfWire(scale, b4) == LET x == FromTwos(b4) IN DecNorm(x.neg, DigitsOfMag(x.mag), 0 - scale)

\* As-written form fits the wire: scale = max(0, -exp) in 0..255 and
\* int(digits) * 10^max(exp, 0) is a 32-bit signed integer.
DecFits(neg, digits, exp) ==
    LET d1 == StripLeadingZeros(digits) IN
    IF d1 = <<>> THEN exp >= -255
    ELSE /\ exp >= -255
         /\ Len(d1) + MaxI(exp, 0) <= 10
         /\ FitsSigned(MkInt(neg, MulPow10(MagOfDigits(d1), MaxI(exp, 0))), 4)

\* canonical wire form of an as-written decimal that fits
DecWire(neg, digits, exp) ==
    << MaxI(0 - exp, 0) >> \o Twos(MkInt(neg, MulPow10(MagOfDigits(StripLeadingZeros(digits)), MaxI(exp, 0))), 4)
=============================================================================
