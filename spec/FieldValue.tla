----------------------------- MODULE FieldValue -----------------------------
(***************************************************************************)
(* Field values of AMQP 0-9-1 with the RabbitMQ errata: the reference      *)
(* encoder EncVal (what a conforming sender writes for a Python value),    *)
(* the reference decoder DecVal for all 19 type tags, and the documented   *)
(* normalisation Norm (what a value is expected to look like after a       *)
(* round trip).  Abstract values are the records produced by               *)
(* harness/abstraction.py:                                                 *)
(*   [t |-> "bool", b]            [t |-> "int", neg, mag]                  *)
(*   [t |-> "str", cp]            [t |-> "bytes"|"bytearray", b]           *)
(*   [t |-> "float", d (8 bytes)] [t |-> "dec", neg, digits, exp, special] *)
(*   [t |-> "dt", y, mo, d, h, mi, s, us, off]   [t |-> "st", y..s]        *)
(*   [t |-> "none"]               [t |-> "table", e : Seq([k, v])]         *)
(*   [t |-> "array", e]           [t |-> "other", name]                    *)
(* Mirrors: pamqp/encode.py, pamqp/decode.py.                              *)
(***************************************************************************)
EXTENDS Bytes, Utf8, Ieee, CivilTime, Dec, SequencesExt

Ok(b)   == [ok |-> TRUE, b |-> b]
Err(e)  == [ok |-> FALSE, err |-> e]

\* type tags as bytes
Tg == [t |-> 116, b |-> 98, B |-> 66, s |-> 115, u |-> 117, I |-> 73, i |-> 105, l |-> 108, L |-> 76,
       f |-> 102, d |-> 100, D |-> 68, S |-> 83, A |-> 65, T |-> 84, F |-> 70, V |-> 86, x |-> 120, nul |-> 0]

MkBool(b)  == [t |-> "bool", b |-> b]
MkIntV(x)  == [t |-> "int", neg |-> x.neg, mag |-> x.mag]
MkIntW(x, w) == [t |-> "int", neg |-> x.neg, mag |-> x.mag, w |-> w]
MkStr(cp)  == [t |-> "str", cp |-> cp]
MkNone     == [t |-> "none"]
MkFloat(d) == [t |-> "float", d |-> d]
MkTable(e) == [t |-> "table", e |-> e]
MkArray(e) == [t |-> "array", e |-> e]
MkBytes(b) == [t |-> "bytes", b |-> b]
MkByteArray(b) == [t |-> "bytearray", b |-> b]
MkDec(neg, digits, exp) == [t |-> "dec", neg |-> neg, digits |-> digits, exp |-> exp, special |-> ""]
MkDtUtc(c) == [t |-> "dt", y |-> c.y, mo |-> c.mo, d |-> c.d, h |-> c.h, mi |-> c.mi, s |-> c.s, us |-> 0, off |-> <<0>>]

\* A timestamp above 0xFFFFFFFF is read as milliseconds; the library divides by 1000.0 in binary
\* floating point, which TLA+ does not model: such values carry approx = TRUE and are compared
\* within 64 microseconds (DESIGN.md section 10).
IsApprox(v) == "approx" \in DOMAIN v /\ v.approx
TotalMicros(v) == IntAdd(IntMulSmall(IntMulSmall(EpochOf(v, 0), 1000), 1000), IntOf(v.us))
DtClose(a, b) == LET d == IntAdd(TotalMicros(a), IntNeg(TotalMicros(b))) IN CmpMag(d.mag, <<64>>) <= 0

IntOfV(v) == [neg |-> v.neg, mag |-> v.mag]

\* -------------------------------------------------------------------------
\* The integer ladder (property C11).  Order b, s, u, I, i, l ; legacy b, s, I, l.
\* -------------------------------------------------------------------------
InInt64(x) == FitsSigned(x, 8)

TableInt(legacy, x) ==
    IF FitsSigned(x, 1) THEN Ok(<< Tg.b >> \o Twos(x, 1))
    ELSE IF FitsSigned(x, 2) THEN Ok(<< Tg.s >> \o Twos(x, 2))
    ELSE IF ~legacy /\ FitsUnsigned(x, 2) THEN Ok(<< Tg.u >> \o Unsigned(x, 2))
    ELSE IF FitsSigned(x, 4) THEN Ok(<< Tg.I >> \o Twos(x, 4))
    ELSE IF ~legacy /\ FitsUnsigned(x, 4) THEN Ok(<< Tg.i >> \o Unsigned(x, 4))
    ELSE IF FitsSigned(x, 8) THEN Ok(<< Tg.l >> \o Twos(x, 8))
    ELSE Err("TypeError")

\* length prefix of n bytes (n < 2^31 in every model and trace)
LongLen(n) == U32(n)

ShortStr(cp) == IF ~Encodable(cp) THEN Err("Error")
                ELSE LET u == Utf8Enc(cp) IN
                     IF Len(u) > 255 THEN Err("Error") ELSE Ok(<< Len(u) >> \o u)
LongStr(cp)  == IF ~Encodable(cp) THEN Err("Error")
                ELSE LET u == Utf8Enc(cp) IN Ok(LongLen(Len(u)) \o u)

\* datetime / struct_time -> epoch seconds (Int record); naive values are read as UTC
DtEpoch(v) == IF v.t = "st" THEN EpochOf(v, 0)
              ELSE EpochOf(v, IF v.off = <<>> THEN 0 ELSE v.off[1])

Timestamp(v) == LET e == DtEpoch(v) IN
                IF e.neg \/ ~FitsUnsigned(e, 8) THEN Err("Error") ELSE Ok(Unsigned(e, 8))

DecimalWire(v) == IF v.special # "" THEN Err("Error")
                  ELSE IF ~DecFits(v.neg, v.digits, v.exp) THEN Err("Error")
                  ELSE Ok(DecWire(v.neg, v.digits, v.exp))

KeyLess(a, b) == TextLess(a.k, b.k)

RECURSIVE EncVal(_, _), EncTable(_, _), EncEntries(_, _, _, _), EncItems(_, _, _, _)

\* a table entry list -> 4-byte length + entries sorted by key, keys cut to 128 characters
EncTable(legacy, es) ==
    IF es = <<>> THEN Ok(LongLen(0))
    ELSE LET body == EncEntries(legacy, SortSeq(es, KeyLess), 1, <<>>) IN
         IF body.ok THEN Ok(LongLen(Len(body.b)) \o body.b) ELSE body

EncEntries(legacy, es, i, acc) ==
    IF i > Len(es) THEN Ok(acc)
    ELSE LET k == ShortStr(Take(es[i].k, 128))
             v == EncVal(legacy, es[i].v)
         IN IF ~k.ok THEN k ELSE IF ~v.ok THEN v
            ELSE EncEntries(legacy, es, i + 1, acc \o k.b \o v.b)

EncItems(legacy, xs, i, acc) ==
    IF i > Len(xs) THEN Ok(acc)
    ELSE LET v == EncVal(legacy, xs[i]) IN
         IF ~v.ok THEN v ELSE EncItems(legacy, xs, i + 1, acc \o v.b)

EncVal(legacy, v) ==
    CASE v.t = "bool"  -> Ok(<< Tg.t, IF v.b THEN 1 ELSE 0 >>)
      [] v.t = "int"   -> TableInt(legacy, IntOfV(v))
      [] v.t = "dec"   -> LET w == DecimalWire(v) IN IF w.ok THEN Ok(<< Tg.D >> \o w.b) ELSE w
      [] v.t = "float" -> LET n == Narrow(v.d) IN IF n.ok THEN Ok(<< Tg.f >> \o n.b) ELSE Err("Error")
      [] v.t = "str"   -> LET s == LongStr(v.cp) IN IF s.ok THEN Ok(<< Tg.S >> \o s.b) ELSE s
      [] v.t \in {"dt", "st"} -> LET w == Timestamp(v) IN IF w.ok THEN Ok(<< Tg.T >> \o w.b) ELSE w
      [] v.t = "table" -> LET w == EncTable(legacy, v.e) IN IF w.ok THEN Ok(<< Tg.F >> \o w.b) ELSE w
      [] v.t = "array" -> LET w == EncItems(legacy, v.e, 1, <<>>) IN
                          IF w.ok THEN Ok(<< Tg.A >> \o LongLen(Len(w.b)) \o w.b) ELSE w
      [] v.t = "bytearray" -> Ok(<< Tg.x >> \o LongLen(Len(v.b)) \o v.b)
      [] v.t = "none"  -> Ok(<< Tg.V >>)
      [] OTHER         -> Err("TypeError")

\* -------------------------------------------------------------------------
\* Reference decoder.  A result is [ok |-> TRUE, n |-> bytes consumed, v |-> value]
\* or Bad.  Lengths >= 2^30 are Bad (no such input exists in any model or trace).
\* -------------------------------------------------------------------------
Bad == [ok |-> FALSE]
Got(n, v) == [ok |-> TRUE, n |-> n, v |-> v]

Len32(b) == IF Len(b) < 4 \/ b[1] >= 64 THEN -1 ELSE b[1] * 16777216 + b[2] * 65536 + b[3] * 256 + b[4]

DecShortStr(b) ==
    IF Len(b) < 1 \/ Len(b) < 1 + b[1] THEN Bad
    ELSE LET u == Utf8Dec(Slice(b, 1, 1 + b[1])) IN
         IF u.ok THEN Got(1 + b[1], MkStr(u.cps)) ELSE Bad

\* long string: text if it is UTF-8, raw bytes otherwise
DecLongStr(b) ==
    LET n == Len32(b) IN
    IF n < 0 \/ Len(b) < 4 + n THEN Bad
    ELSE LET raw == Slice(b, 4, 4 + n) u == Utf8Dec(raw) IN
         Got(4 + n, IF u.ok THEN MkStr(u.cps) ELSE MkBytes(raw))

DecTimestamp(b) ==
    IF Len(b) < 8 THEN Bad
    ELSE LET r == ReadTimestamp(Strip(Take(b, 8))) IN
         IF ~r.ok THEN Bad
         ELSE Got(8, [t |-> "dt", y |-> r.c.y, mo |-> r.c.mo, d |-> r.c.d, h |-> r.c.h, mi |-> r.c.mi,
                      s |-> r.c.s, us |-> r.ms * 1000, off |-> <<0>>, approx |-> r.millis])

DecDecimal(b) ==
    IF Len(b) < 5 THEN Bad
    \* the as-written form is kept (scale = the scale octet, digits of the unscaled value): a decoded decimal
    \* re-encodes with the same scale; equality (SameValue) is by value
    ELSE LET x == FromTwos(Slice(b, 1, 5)) IN Got(5, MkDec(x.neg, DigitsOfMag(x.mag), 0 - b[1]))

RECURSIVE DecVal(_), DecTableBody(_, _, _), DecArrayBody(_, _, _)

\* entries of a table body b[i..] until exactly position end (1-based, exclusive)
DecTableBody(b, i, acc) ==
    IF i > Len(b) THEN Got(0, acc)
    ELSE LET k == DecShortStr(Drop(b, i - 1)) IN
         IF ~k.ok THEN Bad
         ELSE LET v == DecVal(Drop(b, i - 1 + k.n)) IN
              IF ~v.ok THEN Bad
              ELSE DecTableBody(b, i + k.n + v.n, Append(acc, [k |-> k.v.cp, v |-> v.v]))

DecArrayBody(b, i, acc) ==
    IF i > Len(b) THEN Got(0, acc)
    ELSE LET v == DecVal(Drop(b, i - 1)) IN
         IF ~v.ok THEN Bad ELSE DecArrayBody(b, i + v.n, Append(acc, v.v))

\* last binding wins for duplicate keys (a dict)
RECURSIVE DedupR(_, _, _)
DedupR(es, i, acc) ==
    IF i > Len(es) THEN acc
    ELSE LET pos == SelectInSeq(acc, LAMBDA e : e.k = es[i].k) IN
         IF pos = 0 THEN DedupR(es, i + 1, Append(acc, es[i]))
         ELSE DedupR(es, i + 1, [acc EXCEPT ![pos] = es[i]])
Dedup(es) == DedupR(es, 1, <<>>)

DecTable(b) ==      \* 4-byte length + entries
    LET n == Len32(b) IN
    IF n < 0 \/ Len(b) < 4 + n THEN Bad
    ELSE LET body == DecTableBody(Slice(b, 4, 4 + n), 1, <<>>) IN
         IF body.ok THEN Got(4 + n, MkTable(Dedup(body.v))) ELSE Bad

DecArray(b) ==
    LET n == Len32(b) IN
    IF n < 0 \/ Len(b) < 4 + n THEN Bad
    ELSE LET body == DecArrayBody(Slice(b, 4, 4 + n), 1, <<>>) IN
         IF body.ok THEN Got(4 + n, MkArray(body.v)) ELSE Bad

Fixed(b, n, v) == IF Len(b) < n THEN Bad ELSE Got(n, v)

\* b starts with the type tag
DecVal(b) ==
    IF b = <<>> THEN Bad
    ELSE LET tg == b[1] r == Tail(b)
             Shift(x) == IF x.ok THEN Got(x.n + 1, x.v) ELSE Bad
         IN
         CASE tg = Tg.t -> IF Len(r) < 1 THEN Bad ELSE Got(2, MkBool(r[1] # 0))
           [] tg = Tg.b -> IF Len(r) < 1 THEN Bad ELSE Got(2, MkIntW(FromTwos(Take(r, 1)), tg))
           [] tg = Tg.B -> IF Len(r) < 1 THEN Bad ELSE Got(2, MkIntW(FromUnsigned(Take(r, 1)), tg))
           [] tg = Tg.s -> IF Len(r) < 2 THEN Bad ELSE Got(3, MkIntW(FromTwos(Take(r, 2)), tg))
           [] tg = Tg.u -> IF Len(r) < 2 THEN Bad ELSE Got(3, MkIntW(FromUnsigned(Take(r, 2)), tg))
           [] tg = Tg.I -> IF Len(r) < 4 THEN Bad ELSE Got(5, MkIntW(FromTwos(Take(r, 4)), tg))
           [] tg = Tg.i -> IF Len(r) < 4 THEN Bad ELSE Got(5, MkIntW(FromUnsigned(Take(r, 4)), tg))
           [] tg \in {Tg.l, Tg.L} -> IF Len(r) < 8 THEN Bad ELSE Got(9, MkIntW(FromTwos(Take(r, 8)), tg))
           [] tg = Tg.f -> IF Len(r) < 4 THEN Bad ELSE Got(5, MkFloat(Widen(Take(r, 4))))
           [] tg = Tg.d -> IF Len(r) < 8 THEN Bad ELSE Got(9, MkFloat(Take(r, 8)))
           [] tg = Tg.D -> Shift(DecDecimal(r))
           [] tg = Tg.S -> Shift(DecLongStr(r))
           [] tg = Tg.A -> Shift(DecArray(r))
           [] tg = Tg.T -> Shift(DecTimestamp(r))
           [] tg = Tg.F -> Shift(DecTable(r))
           [] tg \in {Tg.V, Tg.nul} -> Got(1, MkNone)
           [] tg = Tg.x -> LET n == Len32(r) IN
                           IF n < 0 \/ Len(r) < 4 + n THEN Bad
                           ELSE Got(5 + n, MkByteArray(Slice(r, 4, 4 + n)))
           [] OTHER -> Bad

\* -------------------------------------------------------------------------
\* Documented normalisation and value equality
\* -------------------------------------------------------------------------
RECURSIVE Norm(_)
Norm(v) ==
    CASE v.t = "float" -> LET n == Narrow(v.d) IN IF n.ok THEN MkFloat(Widen(n.b)) ELSE v
      [] v.t \in {"dt", "st"} ->
            LET e == DtEpoch(v) IN
            IF e.neg \/ CmpMag(e.mag, Year10000) >= 0 THEN v ELSE MkDtUtc(CivilOf(e.mag))
      [] v.t = "table" -> MkTable([i \in 1..Len(v.e) |-> [k |-> v.e[i].k, v |-> Norm(v.e[i].v)]])
      [] v.t = "array" -> MkArray([i \in 1..Len(v.e) |-> Norm(v.e[i])])
      [] OTHER -> v

Keys(es) == { es[i].k : i \in 1..Len(es) }
Lookup(es, k) == es[CHOOSE i \in 1..Len(es) : es[i].k = k].v
UniqueKeys(es) == Cardinality(Keys(es)) = Len(es)

RECURSIVE SameValue(_, _)
SameValue(a, b) ==
    /\ a.t = b.t
    /\ CASE a.t = "bool" -> a.b = b.b
         [] a.t = "int" -> a.neg = b.neg /\ a.mag = b.mag
         [] a.t = "str" -> a.cp = b.cp
         [] a.t \in {"bytes", "bytearray"} -> a.b = b.b
         [] a.t = "float" -> SameF64(a.d, b.d)
         [] a.t = "dec" -> a.special = b.special
                           /\ (a.special = "" => DecNorm(a.neg, a.digits, a.exp) = DecNorm(b.neg, b.digits, b.exp))
         [] a.t = "dt" -> IF IsApprox(b) \/ IsApprox(a) THEN a.off = b.off /\ a.off = <<0>> /\ DtClose(a, b)
                          ELSE a.y = b.y /\ a.mo = b.mo /\ a.d = b.d /\ a.h = b.h /\ a.mi = b.mi /\ a.s = b.s
                               /\ a.us = b.us /\ a.off = b.off
         [] a.t = "st" -> a.y = b.y /\ a.mo = b.mo /\ a.d = b.d /\ a.h = b.h /\ a.mi = b.mi /\ a.s = b.s
         [] a.t = "none" -> TRUE
         [] a.t = "table" -> /\ Keys(a.e) = Keys(b.e)
                             /\ Len(a.e) = Len(b.e)
                             /\ \A k \in Keys(a.e) : SameValue(Lookup(a.e, k), Lookup(b.e, k))
         [] a.t = "array" -> /\ Len(a.e) = Len(b.e)
                             /\ \A i \in 1..Len(a.e) : SameValue(a.e[i], b.e[i])
         [] a.t = "other" -> a.name = b.name
         [] OTHER -> FALSE

\* documented exceptions of C10: a timestamp after 2106-02-07 (read back as milliseconds by design),
\* a table key longer than 128 characters (truncated with a logged warning)
RECURSIVE Exempt10(_)
Exempt10(v) ==
    CASE v.t \in {"dt", "st"} -> LET ep == DtEpoch(v) IN ~ep.neg /\ CmpMag(ep.mag, MaxSeconds32) > 0
      [] v.t = "table" -> \E i \in 1..Len(v.e) : Len(v.e[i].k) > 128 \/ Exempt10(v.e[i].v)
      [] v.t = "array" -> \E i \in 1..Len(v.e) : Exempt10(v.e[i])
      [] OTHER -> FALSE

RECURSIVE KeysAscending(_)
KeysAscending(v) ==
    CASE v.t = "table" -> /\ \A i \in 1..(Len(v.e) - 1) : TextLess(v.e[i].k, v.e[i+1].k)
                          /\ \A i \in 1..Len(v.e) : KeysAscending(v.e[i].v)
      [] v.t = "array" -> \A i \in 1..Len(v.e) : KeysAscending(v.e[i])
      [] OTHER -> TRUE

\* a Python dict has unique keys at every level
RECURSIVE DictShaped(_)
DictShaped(v) ==
    CASE v.t = "table" -> UniqueKeys(v.e) /\ \A i \in 1..Len(v.e) : DictShaped(v.e[i].v)
      [] v.t = "array" -> \A i \in 1..Len(v.e) : DictShaped(v.e[i])
      [] OTHER -> TRUE

\* the statement's domain of C03: every such value must be accepted
RECURSIVE Encodable03(_, _)
Encodable03(v, depth) ==
    CASE v.t = "bool" -> TRUE
      [] v.t = "int" -> InInt64(IntOfV(v))
      [] v.t = "float" -> Narrow(v.d).ok
      [] v.t = "dec" -> v.special = "" /\ DecFits(v.neg, v.digits, v.exp)
      [] v.t = "str" -> Encodable(v.cp)
      [] v.t = "bytearray" -> TRUE
      [] v.t \in {"dt", "st"} -> LET e == DtEpoch(v) IN ~e.neg /\ CmpMag(e.mag, MaxSeconds32) <= 0
      [] v.t = "none" -> TRUE
      [] v.t = "array" -> depth > 0 /\ \A i \in 1..Len(v.e) : Encodable03(v.e[i], depth - 1)
      [] v.t = "table" -> /\ depth > 0 /\ UniqueKeys(v.e)
                          /\ \A i \in 1..Len(v.e) :
                                /\ Encodable(v.e[i].k) /\ Len(v.e[i].k) <= 128 /\ Utf8ByteLen(v.e[i].k) <= 255
                                /\ Encodable03(v.e[i].v, depth - 1)
      [] OTHER -> FALSE

\* every integer type tag in a DECODED value (DecVal records the wire tag of an integer in field w)
RECURSIVE IntTags(_)
IntTags(v) ==
    CASE v.t = "int" -> { v.w }
      [] v.t = "table" -> UNION { IntTags(v.e[i].v) : i \in 1..Len(v.e) }
      [] v.t = "array" -> UNION { IntTags(v.e[i]) : i \in 1..Len(v.e) }
      [] OTHER -> {}
=============================================================================
