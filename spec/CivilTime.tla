----------------------------- MODULE CivilTime -----------------------------
(***************************************************************************)
(* Proleptic Gregorian calendar <-> seconds since 1970-01-01T00:00:00Z.    *)
(* Epoch values are Int records (they exceed 2^31).  A civil time is a     *)
(* record [y, mo, d, h, mi, s].  No time zone is an input of any operator  *)
(* here except an explicit UTC offset in seconds: that is property C15.    *)
(* Mirrors: encode.timestamp (calendar.timegm / datetime.timestamp) and    *)
(* decode.timestamp (datetime.fromtimestamp(..., tz=utc)).                 *)
(***************************************************************************)
EXTENDS Bytes

\* days since 1970-01-01 of y-m-d (y >= 1), after H. Hinnant's days_from_civil
DaysFromCivil(y0, m, d) ==
    LET y   == IF m <= 2 THEN y0 - 1 ELSE y0
        era == y \div 400
        yoe == y - era * 400
        mp  == IF m > 2 THEN m - 3 ELSE m + 9
        doy == (153 * mp + 2) \div 5 + d - 1
        doe == yoe * 365 + yoe \div 4 - yoe \div 100 + doy
    IN era * 146097 + doe - 719468

CivilFromDays(z0) ==
    LET z   == z0 + 719468
        era == z \div 146097
        doe == z - era * 146097
        yoe == (doe - doe \div 1460 + doe \div 36524 - doe \div 146096) \div 365
        y   == yoe + era * 400
        doy == doe - (365 * yoe + yoe \div 4 - yoe \div 100)
        mp  == (5 * doy + 2) \div 153
        d   == doy - (153 * mp + 2) \div 5 + 1
        m   == IF mp < 10 THEN mp + 3 ELSE mp - 9
    IN [y |-> IF m <= 2 THEN y + 1 ELSE y, mo |-> m, d |-> d]

\* epoch seconds (Int record) of civil fields read as UTC minus an offset (seconds east of UTC)
EpochOf(c, off) ==
    IntAdd(IntMulSmall(IntOf(DaysFromCivil(c.y, c.mo, c.d)), 86400),
           IntOf(c.h * 3600 + c.mi * 60 + c.s - off))

\* civil UTC fields of a non-negative epoch magnitude (seconds), seconds < 253402300800
CivilOf(secmag) ==
    LET qr  == DivModSmall(secmag, 86400)
        ymd == CivilFromDays(NatOfMag(qr[1]))
        sod == qr[2]
    IN [y |-> ymd.y, mo |-> ymd.mo, d |-> ymd.d,
        h |-> sod \div 3600, mi |-> (sod \div 60) % 60, s |-> sod % 60]

\* first second of year 10000 (datetime cannot represent it)
Year10000 == <<58, 255, 244, 65, 128>>        \* 253402300800
MaxSeconds32 == <<255, 255, 255, 255>>

\* Reading of a 64-bit wire timestamp (magnitude m):
\*   m <= 0xFFFFFFFF      -> seconds
\*   otherwise            -> milliseconds (RabbitMQ / library convention)
\* result [ok |-> TRUE, c |-> civil, ms |-> 0..999] or [ok |-> FALSE] when beyond year 9999
ReadTimestamp(m) ==
    IF CmpMag(m, MaxSeconds32) <= 0 THEN [ok |-> TRUE, c |-> CivilOf(m), ms |-> 0, millis |-> FALSE]
    ELSE LET qr == DivModSmall(m, 1000) IN
         IF CmpMag(qr[1], Year10000) >= 0 THEN [ok |-> FALSE]
         ELSE [ok |-> TRUE, c |-> CivilOf(qr[1]), ms |-> qr[2], millis |-> TRUE]
=============================================================================
