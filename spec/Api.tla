-------------------------------- MODULE Api --------------------------------
(***************************************************************************)
(* The sans-io object world: frame objects with identity, the mutable      *)
(* containers they hold, who allocated them, and the calls that must be    *)
(* pure (properties C16, C12, C13, C19).                                   *)
(*   heap  : Seq([cls, vals, cell])   vals: argument -> abstract value     *)
(*                                    cell: index into cells, 0 = none     *)
(*   cells : Seq([kind, v, owner])    kind "table" (v an abstract table)   *)
(*                                    or "props" (v a property record)     *)
(*   ucell : Seq(cell index)          the j-th container the USER created  *)
(* Modelled as the code does it, named and not idealised: a method         *)
(* constructor keeps the caller's dict only when it is non-empty           *)
(* ("arguments or {}"), a ContentHeader always keeps the caller's          *)
(* property object, decoded objects get fresh library-owned containers.    *)
(* The operators are used twice: by the design model below (MC_Api) and    *)
(* by the trace specification, which walks recorded histories with them.   *)
(***************************************************************************)
EXTENDS Frames

HeapInit == [heap |-> <<>>, cells |-> <<>>, ucell |-> <<>>]

TableSlot(cls) ==     \* the (single) table argument of a method class, "properties" for a content header, "" if none
    IF cls = "ContentHeader" THEN "properties"
    ELSE LET m == MethodByName(cls) idx == { i \in 1..Len(m.args) : m.args[i].ty = "table" } IN
         IF idx = {} THEN "" ELSE m.args[CHOOSE i \in idx : TRUE].n

DefaultProps == [nm \in PropNames |-> IF nm = "cluster_id" THEN MkStr(<<>>) ELSE NoneV]
EmptyTable == MkTable(<<>>)

\* the frame an object denotes in state h: the table slot is read through its cell
ViewOf(h, o) ==
    IF o.cls \in {"ContentBody", "Heartbeat", "ProtocolHeader"} THEN o.f
    ELSE IF o.cls = "ContentHeader" THEN [cls |-> "ContentHeader", weight |-> o.vals.weight, size |-> o.vals.size,
                                     size_ok |-> TRUE, class_id |-> o.vals.class_id, props |-> h.cells[o.cell].v]
    ELSE IF o.cell = 0 THEN [cls |-> o.cls, vals |-> o.vals]
    ELSE [cls |-> o.cls, vals |-> [a \in DOMAIN o.vals |-> IF a = TableSlot(o.cls) THEN h.cells[o.cell].v ELSE o.vals[a]]]

Upsert(tbl, k, v) ==
    LET pos == SelectInSeq(tbl.e, LAMBDA x : x.k = k) IN
    IF pos = 0 THEN MkTable(Append(tbl.e, [k |-> k, v |-> v])) ELSE MkTable([tbl.e EXCEPT ![pos] = [k |-> k, v |-> v]])

\* -- new state after each action (h = [heap, cells, ucell]) --
HNewUser(h, kind, v) == [h EXCEPT !.cells = Append(@, [kind |-> kind, v |-> v, owner |-> "user"]),
                                  !.ucell = Append(@, Len(h.cells) + 1)]

\* constructor of a method class: kw = given arguments (abstract), uref = 0 or the user dict passed for the table slot
HConstructMethod(h, cls, kw, uref) ==
    LET m    == MethodByName(cls)
        slot == TableSlot(cls)
        val(a) == IF a.n \in DOMAIN kw THEN kw[a.n] ELSE IF a.def.t = "nodef" THEN NoneV ELSE a.def
        vals == [nm \in { m.args[i].n : i \in 1..Len(m.args) } |-> val(m.args[CHOOSE i \in 1..Len(m.args) : m.args[i].n = nm])]
        \* "arguments or {}": the caller's dict is kept only when it is non-empty
        alias == uref # 0 /\ h.cells[h.ucell[uref]].v.e # <<>>
        lit   == slot # "" /\ uref = 0 /\ slot \in DOMAIN kw /\ kw[slot].t = "table" /\ kw[slot].e # <<>>
        newcell == IF lit THEN [kind |-> "table", v |-> kw[slot], owner |-> "user"]
                   ELSE [kind |-> "table", v |-> EmptyTable, owner |-> "lib"]
        cellid == IF slot = "" THEN 0 ELSE IF alias THEN h.ucell[uref] ELSE Len(h.cells) + 1
    IN [h EXCEPT !.cells = IF slot = "" \/ alias THEN @ ELSE Append(@, newcell),
                 !.heap = Append(@, [cls |-> cls, vals |-> vals, cell |-> cellid])]

\* ContentHeader(weight, size, properties): keeps the caller's property object, else a fresh default one
HConstructHeader(h, size, uref) ==
    LET cellid == IF uref # 0 THEN h.ucell[uref] ELSE Len(h.cells) + 1 IN
    [h EXCEPT !.cells = IF uref # 0 THEN @ ELSE Append(@, [kind |-> "props", v |-> DefaultProps, owner |-> "lib"]),
              !.heap = Append(@, [cls |-> "ContentHeader", vals |-> [weight |-> 0, size |-> size, class_id |-> -1], cell |-> cellid])]

HMutateCell(h, c, key, name, v) ==
    [h EXCEPT !.cells[c].v = IF h.cells[c].kind = "table" THEN Upsert(@, key, v) ELSE [@ EXCEPT ![name] = v]]

\* a decoded frame becomes a new object whose containers are fresh, library-allocated
HDecoded(h, f) ==
    IF f.cls = "ContentHeader" THEN
        [h EXCEPT !.cells = Append(@, [kind |-> "props", v |-> f.props, owner |-> "lib"]),
                  !.heap = Append(@, [cls |-> "ContentHeader", vals |-> [weight |-> f.weight, size |-> f.size, class_id |-> f.class_id],
                                      cell |-> Len(h.cells) + 1])]
    ELSE IF f.cls \in MethodNames THEN
        LET slot == TableSlot(f.cls) IN
        [h EXCEPT !.cells = IF slot = "" THEN @ ELSE Append(@, [kind |-> "table", v |-> f.vals[slot], owner |-> "lib"]),
                  !.heap = Append(@, [cls |-> f.cls, vals |-> f.vals, cell |-> IF slot = "" THEN 0 ELSE Len(h.cells) + 1])]
    ELSE [h EXCEPT !.heap = Append(@, [cls |-> f.cls, vals |-> [x \in {"_"} |-> NoneV], cell |-> 0, f |-> f])]   \* body, heartbeat, protocol header

\* the model's own invariant: a library-allocated container belongs to exactly one object
FreshLibraryCells(h) == \A c \in 1..Len(h.cells) : h.cells[c].owner = "lib" => Cardinality({ i \in 1..Len(h.heap) : h.heap[i].cell = c }) <= 1


\* containers are shared between objects only where the user passed the same container twice
SharingOnlyByUser(h) == \A i, j \in 1..Len(h.heap) :
    (i # j /\ h.heap[i].cell # 0 /\ h.heap[i].cell = h.heap[j].cell) => h.cells[h.heap[i].cell].owner = "user"
=============================================================================
