------------------------------- MODULE Frames -------------------------------
(***************************************************************************)
(* Frames of AMQP 0-9-1: the reference encoder Marshal and the reference   *)
(* decoder Unmarshal for the five kinds the library handles (method,       *)
(* content header, content body, heartbeat, protocol header), the          *)
(* argument list with LSB-first bit packing, Basic.Properties with         *)
(* MSB-first flag words, the send-side validation predicate Valid, and the *)
(* header peek FrameParts.                                                 *)
(* Abstract frames (harness/abstraction.py):                               *)
(*   [cls |-> "Queue.Declare", vals |-> [arg name |-> value]]              *)
(*   [cls |-> "ContentHeader", weight, size (8-byte magnitude), props]     *)
(*   [cls |-> "ContentBody", b]   [cls |-> "Heartbeat"]                    *)
(*   [cls |-> "ProtocolHeader", v |-> <<major, minor, revision>>]          *)
(* Mirrors: pamqp/frame.py, base.py, header.py, body.py, heartbeat.py.     *)
(***************************************************************************)
EXTENDS FieldValue, Catalog

FrameEnd == 206
AMQPLit == <<65, 77, 81, 80>>

\* channel 0..65535, payload shorter than 2^31
Envelope(type, ch, payload) == << type >> \o U16(ch) \o U32(Len(payload)) \o payload \o << FrameEnd >>

\* -------------------------------------------------------------------------
\* Method arguments
\* -------------------------------------------------------------------------
\* encoding of one non-bit argument of wire type ty; Err for an assignment that is not acceptable
EncArg(legacy, ty, v) ==
    CASE ty = "octet"    -> IF v.t = "int" /\ FitsUnsigned(IntOfV(v), 1) THEN Ok(Unsigned(IntOfV(v), 1)) ELSE Err("Error")
      [] ty = "short"    -> IF v.t = "int" /\ FitsUnsigned(IntOfV(v), 2) THEN Ok(Unsigned(IntOfV(v), 2)) ELSE Err("TypeError")
      [] ty = "long"     -> IF v.t = "int" /\ FitsUnsigned(IntOfV(v), 4) THEN Ok(Unsigned(IntOfV(v), 4)) ELSE Err("TypeError")
      [] ty = "longlong" -> IF v.t = "int" /\ FitsSigned(IntOfV(v), 8) THEN Ok(Twos(IntOfV(v), 8)) ELSE Err("TypeError")
      [] ty = "shortstr" -> IF v.t = "str" THEN ShortStr(v.cp) ELSE Err("TypeError")
      [] ty = "longstr"  -> IF v.t = "str" THEN LongStr(v.cp) ELSE Err("TypeError")
      [] ty = "table"    -> IF v.t = "table" THEN EncTable(legacy, v.e)
                            ELSE IF v.t = "none" THEN Ok(LongLen(0)) ELSE Err("TypeError")
      [] ty = "timestamp" -> IF v.t \in {"dt", "st"} THEN Timestamp(v) ELSE Err("TypeError")
      [] OTHER -> Err("TypeError")

BitOf(v) == IF v.t = "bool" /\ v.b THEN 1 ELSE 0

\* arguments in specification order; consecutive bits share octets, least significant bit first,
\* the octet is flushed at the first non-bit argument, after the eighth bit, or at the end
RECURSIVE EncArgsR(_, _, _, _, _, _, _)
EncArgsR(legacy, args, vals, i, acc, byte, nbits) ==
    IF i > Len(args) THEN Ok(IF nbits > 0 THEN acc \o << byte >> ELSE acc)
    ELSE LET a == args[i] v == vals[a.n] IN
         IF a.ty = "bit" THEN
             IF v.t # "bool" THEN Err("Error")
             ELSE LET nb == byte + BitOf(v) * (2 ^ nbits) IN
                  IF nbits = 7 THEN EncArgsR(legacy, args, vals, i + 1, acc \o << nb >>, 0, 0)
                  ELSE EncArgsR(legacy, args, vals, i + 1, acc, nb, nbits + 1)
         ELSE LET flushed == IF nbits > 0 THEN acc \o << byte >> ELSE acc
                  x == EncArg(legacy, a.ty, v)
              IN IF ~x.ok THEN x ELSE EncArgsR(legacy, args, vals, i + 1, flushed \o x.b, 0, 0)

EncArgs(legacy, m, vals) == EncArgsR(legacy, m.args, vals, 1, <<>>, 0, 0)

\* ---- send-side validation (property C13) ----
StrLen(v) == Len(v.cp)
NameOk(v) == \A i \in 1..Len(v.cp) : v.cp[i] \in NameChars
\* numeric equality with a fixed value: 0 == False, "" only equals ""
EqFixed(v, fx) ==
    CASE fx.t = "str"  -> v.t = "str" /\ v.cp = fx.cp
      [] fx.t = "bool" -> (v.t = "bool" /\ v.b = fx.b)
      [] fx.t = "int"  -> (v.t = "int" /\ v.neg = fx.neg /\ v.mag = fx.mag) \/ (v.t = "bool" /\ ~v.b /\ fx.mag = <<>>)
      [] OTHER -> FALSE

\* constraint of one argument; None (t = "none") is exempt by documented design
ArgValid(cls, a, v) ==
    \/ v.t = "none"
    \/ /\ (a.n = "ticket" /\ a.ty = "short") => EqFixed(v, [t |-> "int", neg |-> FALSE, mag |-> <<>>])
       /\ \A fx \in FixedArgs : (fx[1] = cls /\ fx[2] = a.n) => EqFixed(v, fx[3])
       /\ \A mx \in MaxLenArgs : (mx[1] = cls /\ mx[2] = a.n) => (v.t = "str" => StrLen(v) <= mx[3])
       /\ (<<cls, a.n>> \in ExchangeNameArgs) => (v.t = "str" => (StrLen(v) <= 127 /\ NameOk(v)))
       /\ (<<cls, a.n>> \in QueueNameArgs) => (v.t = "str" => (StrLen(v) <= 256 /\ NameOk(v)))

Valid(m, vals) == \A i \in 1..Len(m.args) : ArgValid(m.name, m.args[i], vals[m.args[i].n])
Constrained(cls, n) == \/ n = "ticket"
                       \/ \E fx \in FixedArgs : fx[1] = cls /\ fx[2] = n
                       \/ \E mx \in MaxLenArgs : mx[1] = cls /\ mx[2] = n
                       \/ <<cls, n>> \in ExchangeNameArgs \cup QueueNameArgs

PropsValid(props) ==
    /\ props.cluster_id.t = "str" /\ props.cluster_id.cp = <<>>
    /\ \/ props.delivery_mode.t = "none"
       \/ props.delivery_mode.t = "int" /\ ~props.delivery_mode.neg /\ props.delivery_mode.mag \in {<<1>>, <<2>>}

\* -------------------------------------------------------------------------
\* Basic.Properties
\* -------------------------------------------------------------------------
PropSet(v) == v.t # "none" /\ ~(v.t = "str" /\ v.cp = <<>>)

RECURSIVE EncPropsR(_, _, _, _, _)
EncPropsR(legacy, props, i, flags, acc) ==
    IF i > Len(Properties) THEN Ok(U16(flags) \o acc)
    ELSE LET p == Properties[i] v == props[p.n] IN
         IF ~PropSet(v) THEN EncPropsR(legacy, props, i + 1, flags, acc)
         ELSE LET x == EncArg(legacy, p.ty, v) IN
              IF ~x.ok THEN x ELSE EncPropsR(legacy, props, i + 1, flags + p.flag, acc \o x.b)
EncProps(legacy, props) == EncPropsR(legacy, props, 1, 0, <<>>)

\* -------------------------------------------------------------------------
\* Marshal
\* -------------------------------------------------------------------------
ChannelOk(ch) == ch >= 0 /\ ch <= 65535

MarshalMethod(legacy, f, ch) ==
    LET m == MethodByName(f.cls) IN
    IF ~Valid(m, f.vals) THEN Err("ValueError")
    ELSE LET a == EncArgs(legacy, m, f.vals) IN
         IF ~a.ok THEN a
         ELSE IF ~ChannelOk(ch) THEN Err("Error")
         ELSE Ok(Envelope(1, ch, U16(m.cid) \o U16(m.mid) \o a.b))

MarshalHeader(legacy, f, ch) ==
    LET p == EncProps(legacy, f.props) IN
    IF ~p.ok THEN p
    ELSE IF Len(f.size) > 8 \/ ~ChannelOk(ch) THEN Err("Error")
    ELSE Ok(Envelope(2, ch, U16(60) \o U16(0) \o PadLeft(f.size, 8) \o p.b))

Marshal(legacy, f, ch) ==
    CASE f.cls = "ContentHeader"  -> MarshalHeader(legacy, f, ch)
      [] f.cls = "ContentBody"    -> IF ChannelOk(ch) THEN Ok(Envelope(3, ch, f.b)) ELSE Err("Error")
      [] f.cls = "Heartbeat"      -> Ok(<<8, 0, 0, 0, 0, 0, 0, FrameEnd>>)
      [] f.cls = "ProtocolHeader" -> IF \A i \in 1..3 : f.v[i] \in 0..255 THEN Ok(AMQPLit \o <<0>> \o f.v) ELSE Err("Error")
      [] OTHER -> MarshalMethod(legacy, f, ch)

\* -------------------------------------------------------------------------
\* Unmarshal
\* -------------------------------------------------------------------------
DecArgVal(ty, b) ==
    CASE ty = "octet"    -> Fixed(b, 1, MkIntV(FromUnsigned(Take(b, 1))))
      [] ty = "short"    -> Fixed(b, 2, MkIntV(FromUnsigned(Take(b, 2))))
      [] ty = "long"     -> Fixed(b, 4, MkIntV(FromUnsigned(Take(b, 4))))
      [] ty = "longlong" -> Fixed(b, 8, MkIntV(FromTwos(Take(b, 8))))
      [] ty = "shortstr" -> DecShortStr(b)
      [] ty = "longstr"  -> DecLongStr(b)
      [] ty = "table"    -> DecTable(b)
      [] ty = "timestamp" -> DecTimestamp(b)
      [] OTHER -> Bad

\* returns [ok, n, v |-> sequence of values in argument order]
RECURSIVE DecArgsR(_, _, _, _, _, _)
DecArgsR(args, b, i, pos, acc, nbits) ==    \* pos: bytes consumed so far; nbits: bits taken from octet b[pos+1]
    IF i > Len(args) THEN Got(IF nbits > 0 THEN pos + 1 ELSE pos, acc)
    ELSE LET a == args[i] IN
         IF a.ty = "bit" THEN
             IF Len(b) < pos + 1 THEN Bad
             ELSE LET bit == (b[pos + 1] \div (2 ^ nbits)) % 2 IN
                  IF nbits = 7 THEN DecArgsR(args, b, i + 1, pos + 1, Append(acc, MkBool(bit = 1)), 0)
                  ELSE DecArgsR(args, b, i + 1, pos, Append(acc, MkBool(bit = 1)), nbits + 1)
         ELSE LET p == IF nbits > 0 THEN pos + 1 ELSE pos
                  x == DecArgVal(a.ty, Drop(b, p))
              IN IF ~x.ok THEN Bad ELSE DecArgsR(args, b, i + 1, p + x.n, Append(acc, x.v), 0)

DecArgs(m, b) ==
    LET r == DecArgsR(m.args, b, 1, 0, <<>>, 0) IN
    IF ~r.ok THEN Bad
    ELSE Got(r.n, [nm \in { m.args[i].n : i \in 1..Len(m.args) } |->
                      r.v[CHOOSE i \in 1..Len(m.args) : m.args[i].n = nm]])

NoneV == [t |-> "none"]

\* flag words: 16 bits each, bit 0 = another word follows; only the first word carries properties
RECURSIVE FlagWords(_, _)
FlagWords(b, pos) == IF Len(b) < pos + 2 THEN -1
                     ELSE IF b[pos + 2] % 2 = 1 THEN FlagWords(b, pos + 2) ELSE pos + 2

RECURSIVE DecPropsR(_, _, _, _, _)
DecPropsR(b, flags, i, pos, acc) ==
    IF i > Len(Properties) THEN Got(pos, acc)
    ELSE LET p == Properties[i] IN
         IF (flags \div p.flag) % 2 = 0 THEN DecPropsR(b, flags, i + 1, pos, Append(acc, NoneV))
         ELSE LET x == DecArgVal(p.ty, Drop(b, pos)) IN
              IF ~x.ok THEN Bad ELSE DecPropsR(b, flags, i + 1, pos + x.n, Append(acc, x.v))

PropNames == { Properties[i].n : i \in 1..Len(Properties) }
PropIndex(nm) == CHOOSE i \in 1..Len(Properties) : Properties[i].n = nm

\* decoded property set: unset = none, except the deprecated cluster_id which stays ""
DecProps(b) ==
    LET fend == FlagWords(b, 0) IN
    IF fend < 0 THEN Bad
    ELSE LET r == DecPropsR(b, FromU16(Take(b, 2)), 1, fend, <<>>) IN
         IF ~r.ok THEN Bad
         ELSE Got(r.n, [nm \in PropNames |->
                          IF nm = "cluster_id" /\ r.v[PropIndex(nm)].t = "none" THEN MkStr(<<>>)
                          ELSE r.v[PropIndex(nm)]])

FrameR(n, ch, f) == [k |-> "frame", n |-> n, ch |-> ch, f |-> f]
Incomplete == [k |-> "incomplete"]
Malformed  == [k |-> "malformed"]
Unspecified == [k |-> "unspecified"]     \* the statement of no property fixes the outcome

UnmarshalMethod(p) ==
    IF Len(p) < 4 THEN Bad
    ELSE LET c == FromU16(Take(p, 2)) mid == FromU16(Slice(p, 2, 4)) IN
         IF ~HasMethodId(c, mid) THEN Bad
         ELSE LET m == MethodById(c, mid) a == DecArgs(m, Drop(p, 4)) IN
              IF ~a.ok THEN Bad ELSE [ok |-> TRUE, f |-> [cls |-> m.name, vals |-> a.v]]

UnmarshalHeader(p) ==
    IF Len(p) < 14 THEN Bad
    ELSE LET pr == DecProps(Drop(p, 12)) IN
         IF ~pr.ok THEN Bad
         ELSE [ok |-> TRUE, f |-> [cls |-> "ContentHeader", class_id |-> FromU16(Take(p, 2)),
                                   weight |-> FromU16(Slice(p, 2, 4)), size |-> Strip(Slice(p, 4, 12)),
                                   props |-> pr.v]]

\* what the 7-byte header says: type, channel, size (-1 when >= 2^31: no such frame fits a trace)
HdrType(b) == b[1]
HdrChannel(b) == b[2] * 256 + b[3]
HdrSize(b) == Len32(SubSeq(b, 4, 7))

Unmarshal(b) ==
    IF Take(b, 4) = AMQPLit THEN
        IF Len(b) >= 8 THEN FrameR(8, 0, [cls |-> "ProtocolHeader", v |-> SubSeq(b, 6, 8)]) ELSE Incomplete
    ELSE IF Len(b) < 7 THEN Incomplete
    ELSE LET ty == HdrType(b) ch == HdrChannel(b) sz == HdrSize(b) IN
         IF sz < 0 \/ Len(b) < sz + 8 THEN Incomplete
         ELSE IF b[sz + 8] # FrameEnd THEN Malformed
         ELSE LET p == SubSeq(b, 8, sz + 7) IN
              CASE ty = 8 -> IF sz = 0 THEN FrameR(8, ch, [cls |-> "Heartbeat"]) ELSE Malformed
                [] ty = 1 -> LET r == UnmarshalMethod(p) IN IF ~r.ok THEN Malformed ELSE FrameR(sz + 8, ch, r.f)
                [] ty = 2 -> LET r == UnmarshalHeader(p) IN IF ~r.ok THEN Malformed ELSE FrameR(sz + 8, ch, r.f)
                [] ty = 3 -> IF sz = 0 THEN Unspecified ELSE FrameR(sz + 8, ch, [cls |-> "ContentBody", b |-> p])
                [] OTHER -> Malformed

\* header peek (property C20): sizes are compared as 4 raw bytes
FrameParts(b) == IF Len(b) >= 7 THEN [ok |-> TRUE, type |-> b[1], ch |-> HdrChannel(b), size |-> SubSeq(b, 4, 7)]
                 ELSE [ok |-> FALSE]

\* -------------------------------------------------------------------------
\* Equality of frames after a round trip (C01, C02, C18)
\* -------------------------------------------------------------------------
\* expected decoded value of an argument that was sent as v with wire type ty
ExpectArg(ty, v) == IF ty = "table" /\ v.t = "none" THEN MkTable(<<>>) ELSE Norm(v)

SameMethod(sent, got) ==
    /\ got.cls = sent.cls
    /\ LET m == MethodByName(sent.cls) IN
       \A i \in 1..Len(m.args) : SameValue(got.vals[m.args[i].n], ExpectArg(m.args[i].ty, sent.vals[m.args[i].n]))

\* properties: exactly the set ones come back, all others unset
ExpectProp(nm, v) == IF PropSet(v) THEN Norm(v) ELSE IF nm = "cluster_id" THEN MkStr(<<>>) ELSE NoneV
SameProps(sent, got) == \A nm \in PropNames : SameValue(got[nm], ExpectProp(nm, sent[nm]))
=============================================================================
