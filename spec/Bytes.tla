------------------------------- MODULE Bytes -------------------------------
(***************************************************************************)
(* Byte strings (Seq(0..255)), big-endian fixed-width naturals, and        *)
(* unbounded integers as sign + big-endian magnitude.  TLC integers are    *)
(* 32 bit, the wire carries 64-bit quantities, so every protocol integer   *)
(* is an Int record [neg |-> BOOLEAN, mag |-> byte string without leading  *)
(* zero] (zero = [neg |-> FALSE, mag |-> <<>>]).                           *)
(* Mirrors: struct formats used by pamqp.common.Struct.                    *)
(***************************************************************************)
EXTENDS Naturals, Integers, Sequences, FiniteSets

Byte == 0..255

MaxI(a, b) == IF a >= b THEN a ELSE b
MinI(a, b) == IF a <= b THEN a ELSE b

\* Python slice semantics: s[:n] and s[n:] never fail.
Take(s, n) == IF n <= 0 THEN <<>> ELSE SubSeq(s, 1, MinI(n, Len(s)))
Drop(s, n) == IF n <= 0 THEN s ELSE IF n >= Len(s) THEN <<>> ELSE SubSeq(s, n + 1, Len(s))
Slice(s, a, b) == Take(Drop(s, a), b - a)          \* s[a:b], 0-based, a <= b

Zeros(n) == [i \in 1..n |-> 0]
Rep(x, n) == [i \in 1..n |-> x]

\* ---- fixed-width big-endian naturals that fit a TLC integer ----
U8(n)  == << n % 256 >>
U16(n) == << (n \div 256) % 256, n % 256 >>
\* U32 of a TLC-representable natural (< 2^31)
U32(n) == << (n \div 16777216) % 256, (n \div 65536) % 256, (n \div 256) % 256, n % 256 >>
FromU16(b) == b[1] * 256 + b[2]
\* value of up to 3 bytes (always representable)
FromU24(b) == b[1] * 65536 + b[2] * 256 + b[3]

\* ---- magnitudes: big-endian byte strings ----
RECURSIVE Strip(_)
Strip(m) == IF m = <<>> THEN <<>> ELSE IF Head(m) = 0 THEN Strip(Tail(m)) ELSE m

PadLeft(m, n) == IF Len(m) >= n THEN m ELSE Zeros(n - Len(m)) \o m

\* lexicographic compare of equal-length strings: -1, 0, 1
RECURSIVE CmpLex(_, _)
CmpLex(a, b) == IF a = <<>> THEN 0
                ELSE IF Head(a) < Head(b) THEN -1
                ELSE IF Head(a) > Head(b) THEN 1
                ELSE CmpLex(Tail(a), Tail(b))

CmpMag(a0, b0) == LET a == Strip(a0) b == Strip(b0) IN
                  IF Len(a) < Len(b) THEN -1
                  ELSE IF Len(a) > Len(b) THEN 1
                  ELSE CmpLex(a, b)

\* magnitude of a TLC natural
RECURSIVE MagOfNat(_)
MagOfNat(n) == IF n = 0 THEN <<>> ELSE MagOfNat(n \div 256) \o << n % 256 >>

\* value of a magnitude known to be < 2^31
RECURSIVE NatOfMagR(_, _)
NatOfMagR(m, acc) == IF m = <<>> THEN acc ELSE NatOfMagR(Tail(m), acc * 256 + Head(m))
NatOfMag(m) == NatOfMagR(Strip(m), 0)
FitsNat31(m) == CmpMag(m, <<128, 0, 0, 0>>) < 0

\* 2^k as a magnitude
Pow2Mag(k) == << 2 ^ (k % 8) >> \o Zeros(k \div 8)

\* add two magnitudes
RECURSIVE AddRev(_, _, _)
AddRev(a, b, c) ==      \* a, b little-endian, c carry
    IF a = <<>> /\ b = <<>> THEN (IF c = 0 THEN <<>> ELSE << c >>)
    ELSE LET x == IF a = <<>> THEN 0 ELSE Head(a)
             y == IF b = <<>> THEN 0 ELSE Head(b)
             s == x + y + c
         IN << s % 256 >> \o AddRev(IF a = <<>> THEN <<>> ELSE Tail(a),
                                   IF b = <<>> THEN <<>> ELSE Tail(b), s \div 256)
Rev(s) == [i \in 1..Len(s) |-> s[Len(s) + 1 - i]]
AddMag(a, b) == Strip(Rev(AddRev(Rev(a), Rev(b), 0)))

\* a - b for a >= b
RECURSIVE SubRev(_, _, _)
SubRev(a, b, br) ==
    IF a = <<>> THEN <<>>
    ELSE LET y == IF b = <<>> THEN 0 ELSE Head(b)
             d == Head(a) - y - br
         IN << (d + 256) % 256 >> \o SubRev(Tail(a), IF b = <<>> THEN <<>> ELSE Tail(b),
                                            IF d < 0 THEN 1 ELSE 0)
SubMag(a, b) == Strip(Rev(SubRev(Rev(a), Rev(b), 0)))

\* multiply a magnitude by a small natural k (k <= 2^22 keeps 255*k + carry < 2^31)
RECURSIVE MulRev(_, _, _)
MulRev(a, k, c) == IF a = <<>> THEN (IF c = 0 THEN <<>> ELSE MulRev(<<0>>, k, c))
                   ELSE LET p == Head(a) * k + c IN << p % 256 >> \o MulRev(Tail(a), k, p \div 256)
MulSmall(m, k) == Strip(Rev(MulRev(Rev(m), k, 0)))

\* divide a magnitude by a small natural k (k <= 2^22): <<quotient magnitude, remainder>>
RECURSIVE DivR(_, _, _, _)
DivR(m, k, r, q) == IF m = <<>> THEN << Strip(q), r >>
                    ELSE LET cur == r * 256 + Head(m) IN DivR(Tail(m), k, cur % k, Append(q, cur \div k))
DivModSmall(m, k) == DivR(m, k, 0, <<>>)

\* ---- Int records ----
IntZero == [neg |-> FALSE, mag |-> <<>>]
MkInt(neg, mag) == LET m == Strip(mag) IN [neg |-> (neg /\ m # <<>>), mag |-> m]
IntOfNat(n) == [neg |-> FALSE, mag |-> MagOfNat(n)]
IntOf(n) == IF n < 0 THEN [neg |-> TRUE, mag |-> MagOfNat(0 - n)] ELSE IntOfNat(n)

\* compare Int records: -1, 0, 1
CmpInt(x, y) == IF x.neg /\ ~y.neg THEN -1
                ELSE IF ~x.neg /\ y.neg THEN 1
                ELSE IF x.neg THEN CmpMag(y.mag, x.mag) ELSE CmpMag(x.mag, y.mag)

\* x in [-2^(8n-1), 2^(8n-1) - 1]
FitsSigned(x, n) == IF x.neg THEN CmpMag(x.mag, Pow2Mag(8 * n - 1)) <= 0
                    ELSE CmpMag(x.mag, Pow2Mag(8 * n - 1)) < 0
\* x in [0, 2^(8n) - 1]
FitsUnsigned(x, n) == ~x.neg /\ Len(Strip(x.mag)) <= n


\* signed arithmetic on Int records
IntNeg(x) == MkInt(~x.neg, x.mag)
IntAdd(x, y) == IF x.neg = y.neg THEN MkInt(x.neg, AddMag(x.mag, y.mag))
                ELSE IF CmpMag(x.mag, y.mag) >= 0 THEN MkInt(x.neg, SubMag(x.mag, y.mag))
                ELSE MkInt(y.neg, SubMag(y.mag, x.mag))
IntMulSmall(x, k) == MkInt(x.neg, MulSmall(x.mag, k))

Invert(b) == [i \in 1..Len(b) |-> 255 - b[i]]
\* b + 1 modulo 2^(8*Len(b))
IncMod(b) == LET r == Rev(AddRev(Rev(b), <<1>>, 0)) IN
             IF Len(r) > Len(b) THEN Drop(r, 1) ELSE PadLeft(r, Len(b))

\* n-byte two's complement of x (precondition FitsSigned(x, n)); unsigned: PadLeft
Twos(x, n) == IF x.neg THEN IncMod(Invert(PadLeft(x.mag, n))) ELSE PadLeft(x.mag, n)
Unsigned(x, n) == PadLeft(x.mag, n)

FromTwos(b) == IF b # <<>> /\ b[1] >= 128 THEN [neg |-> TRUE, mag |-> Strip(IncMod(Invert(b)))]
               ELSE [neg |-> FALSE, mag |-> Strip(b)]
FromUnsigned(b) == [neg |-> FALSE, mag |-> Strip(b)]

\* concatenation of a sequence of byte strings by divide and conquer
RECURSIVE FlatRange(_, _, _)
FlatRange(ss, lo, hi) == IF lo > hi THEN <<>>
                         ELSE IF lo = hi THEN ss[lo]
                         ELSE LET mid == (lo + hi) \div 2 IN FlatRange(ss, lo, mid) \o FlatRange(ss, mid + 1, hi)
Flat(ss) == FlatRange(ss, 1, Len(ss))

=============================================================================
