------------------------------- MODULE Trace -------------------------------
(***************************************************************************)
(* Code -> specification: TLC walks a trace recorded from the real pamqp   *)
(* (one ndjson event per public call, logged at its return) and judges     *)
(* every event against the specification.  Verdicts are total: a failing   *)
(* clause prints <<"REJECT", id, property, clause>>, the spec state then   *)
(* follows the SPECIFIED outcome and the walk continues.                   *)
(***************************************************************************)
EXTENDS Frames, Json, IOUtils, TLC, TLCExt

Events == ndJsonDeserialize(IOEnv.TRACE_FILE)

VARIABLES l,        \* next event to consume
          legacy,   \* the spec's view of encode.DEPRECATED_RABBITMQ_SUPPORT
          tz        \* process time zone: written by SetTZ, read by nothing (C15)
vars == << l, legacy, tz >>

Has(e, prop) == \E i \in 1..Len(e.p) : e.p[i] = prop
\* IF (not \/) so that TLC evaluates the judgement as an expression, not as two actions
Chk(e, prop, clause, cond) == IF Has(e, prop) THEN (IF cond THEN TRUE ELSE PrintT(<< "REJECT", e.id, prop, clause >>))
                              ELSE TRUE

\* ---- value encode/decode events --------------------------------------------
SpecEnc(pos, lg, v) ==
    CASE pos = "top"   -> EncVal(lg, v)
      [] pos = "table" -> IF v.t = "table" THEN EncTable(lg, v.e) ELSE Err("TypeError")
      [] pos = "array" -> IF v.t = "array"
                          THEN LET w == EncItems(lg, v.e, 1, <<>>) IN
                               IF w.ok THEN Ok(LongLen(Len(w.b)) \o w.b) ELSE w
                          ELSE Err("TypeError")
SpecDec(pos, b) ==
    CASE pos = "top"   -> DecVal(b)
      [] pos = "table" -> DecTable(b)
      [] pos = "array" -> DecArray(b)

SignedTags == { Tg.b, Tg.s, Tg.I, Tg.l }

EncodeValue(e) ==
    LET v    == e.in
        spec == SpecEnc(e.pos, legacy, v)
        okc  == e.out.r = "ok"
        wire == IF okc THEN SpecDec(e.pos, e.out.b) ELSE Bad
        want == Norm(v)
    IN
    \* C11: ladder, refusal type, legacy tags
    /\ Chk(e, "C11", "accepted_iff_int64", spec.ok = okc)
    /\ Chk(e, "C11", "refused_with_TypeError", ~spec.ok => (~okc /\ e.out.type = "TypeError"))
    /\ Chk(e, "C11", "smallest_fit_bytes", (spec.ok /\ okc) => e.out.b = spec.b)
    /\ Chk(e, "C11", "legacy_only_signed_tags",
           (legacy /\ okc /\ wire.ok) => IntTags(wire.v) \subseteq SignedTags)
    \* C03: accepted, decodes (by the reference decoder and by the code) to the normalised input
    /\ Chk(e, "C03", "accepted", Encodable03(v, 32) => okc)
    /\ Chk(e, "C03", "wire_decodes_to_input",
           okc => (wire.ok /\ wire.n = Len(e.out.b) /\ SameValue(wire.v, want)))
    /\ Chk(e, "C03", "code_decode_ok", okc => e.dec.r = "ok")
    /\ Chk(e, "C03", "code_decode_consumed", (okc /\ e.dec.r = "ok") => e.dec.n = Len(e.out.b))
    /\ Chk(e, "C03", "code_decode_value", (okc /\ e.dec.r = "ok") => SameValue(e.dec.v, want))
    \* C04: byte-identical to the reference encoder
    /\ Chk(e, "C04", "accepted", spec.ok => okc)
    /\ Chk(e, "C04", "bytes_equal_reference", (spec.ok /\ okc) => e.out.b = spec.b)
    \* C10: raise, or emit bytes that decode to the input
    /\ Chk(e, "C10", "wire_decodes_to_input",
           okc => (wire.ok /\ wire.n = Len(e.out.b) /\ SameValue(wire.v, want)))
    /\ Chk(e, "C10", "code_decodes_to_input",
           okc => (e.dec.r = "ok" /\ e.dec.n = Len(e.out.b) /\ SameValue(e.dec.v, want)))
    /\ UNCHANGED << legacy, tz >>


\* ---- frame.marshal then frame.unmarshal of the produced bytes ---------------
HeartbeatBytes == <<8, 0, 0, 0, 0, 0, 0, 206>>

RoundTrip(e) ==
    LET f    == e.in
        ch   == e.ch
        spec == Marshal(legacy, f, ch)
        okc  == e.out.r = "ok"
        un   == e.un
        dec  == okc /\ un.r = "ok"
        kind == IF f.cls \in MethodNames THEN "method" ELSE f.cls
    IN
    \* C01: method frames survive encode-then-decode
    /\ Chk(e, "C01", "accepts_valid_assignment", spec.ok => okc)
    /\ Chk(e, "C01", "decodes", okc => un.r = "ok")
    /\ Chk(e, "C01", "consumed_equals_length", dec => un.n = Len(e.out.b))
    /\ Chk(e, "C01", "same_channel", dec => un.ch = ch)
    /\ Chk(e, "C01", "same_class_and_values", dec => SameMethod(f, un.f))
    \* C02: content header and properties
    /\ Chk(e, "C02", "accepts_valid_header", spec.ok => okc)
    /\ Chk(e, "C02", "decodes", okc => un.r = "ok")
    /\ Chk(e, "C02", "consumed_equals_length", dec => un.n = Len(e.out.b))
    /\ Chk(e, "C02", "same_channel", dec => un.ch = ch)
    /\ Chk(e, "C02", "header_fields", dec => (un.f.cls = "ContentHeader" /\ un.f.class_id = 60 /\ un.f.size = f.size))
    /\ Chk(e, "C02", "exactly_the_set_properties",
           (dec /\ un.f.cls = "ContentHeader") => SameProps(f.props, un.f.props))
    /\ Chk(e, "C02", "reencode_reproduces_bytes", dec => (e.re.r = "ok" /\ e.re.b = e.out.b))
    \* C18: body, heartbeat, protocol header
    /\ Chk(e, "C18", "accepted", spec.ok => okc)
    /\ Chk(e, "C18", "bytes", (spec.ok /\ okc) => e.out.b = spec.b)
    /\ Chk(e, "C18", "decodes", okc => un.r = "ok")
    /\ Chk(e, "C18", "consumed_equals_length", dec => un.n = Len(e.out.b))
    /\ Chk(e, "C18", "same_channel", dec => un.ch = (IF kind \in {"ProtocolHeader", "Heartbeat"} THEN 0 ELSE ch))
    /\ Chk(e, "C18", "same_kind", dec => un.f.cls = f.cls)
    /\ Chk(e, "C18", "body_identical",
           (dec /\ kind = "ContentBody" /\ un.f.cls = "ContentBody") => (un.f.b = f.b /\ un.f.len = Len(f.b) /\ f.len = Len(f.b)))
    /\ Chk(e, "C18", "heartbeat_fixed", kind = "Heartbeat" => (okc /\ e.out.b = HeartbeatBytes))
    /\ Chk(e, "C18", "protocol_header_triple",
           (dec /\ kind = "ProtocolHeader" /\ un.f.cls = "ProtocolHeader") => (un.f.v = f.v /\ un.n = 8))
    \* C04: bytes equal the reference encoder
    /\ Chk(e, "C04", "accepted", spec.ok => okc)
    /\ Chk(e, "C04", "bytes_equal_reference", (spec.ok /\ okc) => e.out.b = spec.b)
    /\ UNCHANGED << legacy, tz >>

\* ---- fixed-width integer encoders, direct marshal() calls, by_type ----------
FixedSpec(fn, x) ==
    CASE fn = "short_int"     -> IF FitsSigned(x, 2)   THEN Ok(Twos(x, 2))     ELSE Err("TypeError")
      [] fn = "short_uint"    -> IF FitsUnsigned(x, 2) THEN Ok(Unsigned(x, 2)) ELSE Err("TypeError")
      [] fn = "long_int"      -> IF FitsSigned(x, 4)   THEN Ok(Twos(x, 4))     ELSE Err("TypeError")
      [] fn = "long_uint"     -> IF FitsUnsigned(x, 4) THEN Ok(Unsigned(x, 4)) ELSE Err("TypeError")
      [] fn = "long_long_int" -> IF FitsSigned(x, 8)   THEN Ok(Twos(x, 8))     ELSE Err("TypeError")

EncodeFixed(e) ==
    LET spec == FixedSpec(e.fn, IntOfV(e.in)) okc == e.out.r = "ok" IN
    /\ Chk(e, "C11", "fixed_width_accepts_in_range", spec.ok => (okc /\ e.out.b = spec.b))
    /\ Chk(e, "C11", "fixed_width_refuses_with_TypeError", ~spec.ok => (~okc /\ e.out.type = "TypeError"))
    /\ Chk(e, "C04", "bytes_equal_reference", spec.ok => (okc /\ e.out.b = spec.b))
    /\ UNCHANGED << legacy, tz >>

MarshalPart(e) ==
    LET spec == IF e.kind = "props" THEN EncProps(legacy, e.in.props)
                ELSE LET m == MethodByName(e.in.cls) IN
                     IF Valid(m, e.in.vals) THEN EncArgs(legacy, m, e.in.vals) ELSE Err("ValueError")
        okc == e.out.r = "ok"
    IN
    /\ Chk(e, "C04", "accepted", spec.ok => okc)
    /\ Chk(e, "C04", "bytes_equal_reference", (spec.ok /\ okc) => e.out.b = spec.b)
    /\ UNCHANGED << legacy, tz >>

EncodeArg(e) ==
    LET spec == EncArg(legacy, e.ty, e.in) okc == e.out.r = "ok" IN
    /\ Chk(e, "C04", "accepted", spec.ok => okc)
    /\ Chk(e, "C04", "bytes_equal_reference", (spec.ok /\ okc) => e.out.b = spec.b)
    /\ UNCHANGED << legacy, tz >>

\* ---- static traces: catalogue (C14), reply codes and constants (C17) --------
SpecKeys == { Methods[i].cid * 65536 + Methods[i].mid : i \in 1..Len(Methods) }
SeqSet(q) == { q[i] : i \in 1..Len(q) }

MappingKeys(e) ==
    /\ Chk(e, "C14", "exactly_the_64_indices", SeqSet(e.keys) = SpecKeys /\ e.n = 64 /\ Len(e.keys) = 64)
    /\ UNCHANGED << legacy, tz >>

DefaultOk(got, a) == IF a.def.t = "nodef" THEN got.t = "none" ELSE SameValue(got, a.def)

CatalogEntry(e) ==
    LET c == e.key \div 65536 mid == e.key % 65536
        known == HasMethodId(c, mid)
        m == MethodById(c, mid)
        n == Len(m.args)
    IN
    /\ Chk(e, "C14", "key_is_a_specified_method", known)
    /\ Chk(e, "C14", "index", known => e.index = e.key)
    /\ Chk(e, "C14", "method_id", known => e.frame_id = mid)
    /\ Chk(e, "C14", "dotted_name", known => e.name = m.name)
    /\ Chk(e, "C14", "argument_names_in_wire_order", known => (e.slots = ArgNames(m) /\ e.attributes = ArgNames(m)))
    /\ Chk(e, "C14", "argument_wire_types", known => e.types = [i \in 1..n |-> m.args[i].ty])
    /\ Chk(e, "C14", "expects_reply_flag", known => (e.sync = Synchronous(m) /\ e.sync_is_bool))
    /\ Chk(e, "C14", "valid_replies", known => e.responses = m.resp)
    /\ Chk(e, "C14", "reply_iff_synchronous", e.sync = (e.responses # <<>>))
    /\ Chk(e, "C14", "constructor_defaults",
           (known /\ Len(e.defaults) = n) => \A i \in 1..n : DefaultOk(e.defaults[i], m.args[i]))
    /\ Chk(e, "C14", "documented_defaults", (known /\ Len(e.docs) = n) => \A i \in 1..n : e.docs[i] = m.args[i].doc)
    /\ UNCHANGED << legacy, tz >>

PropertiesEntry(e) ==
    /\ Chk(e, "C14", "properties_names_in_order", e.slots = [i \in 1..14 |-> Properties[i].n])
    /\ Chk(e, "C14", "properties_wire_types", e.types = [i \in 1..14 |-> Properties[i].ty])
    /\ Chk(e, "C14", "properties_flag_bits_15_to_2", e.flags = [i \in 1..14 |-> Properties[i].flag] /\ e.nflags = 14)
    /\ Chk(e, "C14", "properties_ids", e.frame_id = 60 /\ e.index = 60 /\ e.name = "Basic.Properties")
    /\ Chk(e, "C14", "properties_defaults",
           Len(e.defaults) = 14 /\ \A i \in 1..14 :
               IF Properties[i].n = "cluster_id" THEN e.defaults[i] = MkStr(<<>>) ELSE e.defaults[i].t = "none")
    /\ UNCHANGED << legacy, tz >>

ClassIds == [Connection |-> 10, Channel |-> 20, Exchange |-> 40, Queue |-> 50, Basic |-> 60, Tx |-> 90, Confirm |-> 85]
ClassEntry(e) ==
    /\ Chk(e, "C14", "class_id", e.frame_id = ClassIds[e.name] /\ e.index = ClassIds[e.name] * 65536)
    /\ UNCHANGED << legacy, tz >>

ReplyKeys(e) ==
    /\ Chk(e, "C17", "exactly_the_specified_codes", SeqSet(e.keys) = { ReplyCodes[i].value : i \in 1..18 } /\ Len(e.keys) = 18)
    /\ Chk(e, "C17", "one_class_per_code", Cardinality(SeqSet(e.classes)) = 18)
    /\ UNCHANGED << legacy, tz >>

ReplyCode(e) ==
    LET known == \E i \in 1..18 : ReplyCodes[i].value = e.key
        r == ReplyCodes[CHOOSE i \in 1..18 : ReplyCodes[i].value = e.key]
    IN
    /\ Chk(e, "C17", "code_is_specified", known)
    /\ Chk(e, "C17", "numeric_value", known => e.value = r.value)
    /\ Chk(e, "C17", "upper_case_name", known => e.name = r.name)
    /\ Chk(e, "C17", "soft_or_hard_base", known => (e.soft = (r.kind = "soft") /\ e.hard = (r.kind = "hard")))
    /\ Chk(e, "C17", "common_bases", e.amqp /\ e.base /\ e.is_exc)
    /\ UNCHANGED << legacy, tz >>

ConstantsEv(e) ==
    LET c == e.c k == Constants IN
    /\ Chk(e, "C17", "frame_types", c.FRAME_METHOD = k.FRAME_METHOD /\ c.FRAME_HEADER = k.FRAME_HEADER
                                     /\ c.FRAME_BODY = k.FRAME_BODY /\ c.FRAME_HEARTBEAT = k.FRAME_HEARTBEAT)
    /\ Chk(e, "C17", "frame_end", c.FRAME_END = k.FRAME_END /\ c.FRAME_END_CHAR = k.FRAME_END_CHAR)
    /\ Chk(e, "C17", "frame_min_size", c.FRAME_MIN_SIZE = k.FRAME_MIN_SIZE)
    /\ Chk(e, "C17", "header_size", c.FRAME_HEADER_SIZE = k.FRAME_HEADER_SIZE)
    /\ Chk(e, "C17", "protocol_version", c.VERSION = k.VERSION /\ c.AMQP = k.AMQP)
    /\ UNCHANGED << legacy, tz >>

UnmarshalingExc(e) ==
    /\ Chk(e, "C17", "unmarshaling_exception_base", e.base)
    /\ UNCHANGED << legacy, tz >>

ToggleArg(a) == IF a = "false" THEN FALSE ELSE TRUE      \* "true", "noarg" -> TRUE
Toggle(e) == legacy' = ToggleArg(e.arg) /\ UNCHANGED tz
SetTZ(e)  == tz' = e.z /\ UNCHANGED legacy

Step == /\ l <= Len(Events)
        /\ l' = l + 1
        /\ LET e == Events[l] IN
           CASE e.a = "EncodeValue" -> EncodeValue(e)
             [] e.a = "RoundTrip"   -> RoundTrip(e)
             [] e.a = "EncodeFixed" -> EncodeFixed(e)
             [] e.a = "MarshalPart" -> MarshalPart(e)
             [] e.a = "EncodeArg"   -> EncodeArg(e)
             [] e.a = "MappingKeys" -> MappingKeys(e)
             [] e.a = "CatalogEntry" -> CatalogEntry(e)
             [] e.a = "PropertiesEntry" -> PropertiesEntry(e)
             [] e.a = "ClassEntry"  -> ClassEntry(e)
             [] e.a = "ReplyKeys"   -> ReplyKeys(e)
             [] e.a = "ReplyCode"   -> ReplyCode(e)
             [] e.a = "Constants"   -> ConstantsEv(e)
             [] e.a = "UnmarshalingExc" -> UnmarshalingExc(e)
             [] e.a = "Toggle"      -> Toggle(e)
             [] e.a = "SetTZ"       -> SetTZ(e)

Init == l = 1 /\ legacy = FALSE /\ tz = "UTC"
Spec == Init /\ [][Step]_vars
TraceConsumed == TLCGet("stats").diameter - 1 = Len(Events)
=============================================================================
