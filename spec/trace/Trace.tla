------------------------------- MODULE Trace -------------------------------
(***************************************************************************)
(* Code -> specification: TLC walks a trace recorded from the real pamqp   *)
(* (one ndjson event per public call, logged at its return) and judges     *)
(* every event against the specification.  Verdicts are total: a failing   *)
(* clause prints <<"REJECT", id, property, clause>>, the spec state then   *)
(* follows the SPECIFIED outcome and the walk continues.                   *)
(***************************************************************************)
EXTENDS Api, Content, Conn, Json, IOUtils, TLC, TLCExt

Events == ndJsonDeserialize(IOEnv.TRACE_FILE)

VARIABLES l,        \* next event to consume
          st        \* the specification's state, a record:
                    \*   legacy  the spec's view of encode.DEPRECATED_RABBITMQ_SUPPORT (never read from the trace)
                    \*   tz      process time zone: written by SetTZ, read by NOTHING (that is property C15)
                    \*   wire, buf, sent, got, used   the byte stream between a sender and a receiver (Stream.tla)
                    \*   heap    live objects with their mutable containers (Api.tla)
vars == << l, st >>
legacy == st.legacy

Has(e, prop) == \E i \in 1..Len(e.p) : e.p[i] = prop
\* IF (not \/) so that TLC evaluates the judgement as an expression, not as two actions
Chk(e, prop, clause, cond) == IF Has(e, prop) THEN (IF cond THEN TRUE ELSE PrintT(<< "REJECT", e.id, prop, clause >>))
                              ELSE TRUE
\* same with a detail (which cut, which index) appended to the REJECT tuple
ChkD(e, prop, clause, cond, detail) ==
    IF Has(e, prop) THEN (IF cond THEN TRUE ELSE PrintT(<< "REJECT", e.id, prop, clause, detail >>)) ELSE TRUE
\* a premise the DRIVER must establish; its failure is a machinery failure, never a verdict
Premise(e, clause, cond) == IF cond THEN TRUE ELSE PrintT(<< "REJECT", e.id, "MACHINERY", clause >>)
\* a precondition that rests on what the LIBRARY produced (e.g. "the bytes the encoder made are a valid frame", needed to
\* judge the DECODER on their prefixes): when it does not hold the event says nothing about the property at hand and is
\* skipped -- counted in the evidence, never a verdict and never a machinery failure (the encoder's defect is for the
\* checks of the encoder's properties to report)
Skip(e, clause) == PrintT(<< "SKIP", e.id, clause >>)

\* what the wire format cannot represent (a short string of more than 255 octets ...) is refused, never emitted: the
\* driver marks such inputs (unrep), the reference must agree that it has no encoding for them (a premise), and the
\* code must not have produced bytes
Unrep(e, specok, okc) ==
    IF "unrep" \in DOMAIN e
    THEN /\ Premise(e, "reference_has_no_encoding_for_it", ~specok)
         /\ Chk(e, "C04", "unrepresentable_is_not_emitted", ~okc)
    ELSE TRUE

\* equality of a decoded frame (cf, from the code) with the reference decoding (sf)
SameDecoded(sf, cf) ==
    /\ cf.cls = sf.cls
    /\ CASE sf.cls = "ContentHeader" ->
               /\ cf.class_id = sf.class_id /\ cf.weight = sf.weight /\ cf.size = sf.size
               /\ \A nm \in PropNames : SameValue(cf.props[nm], sf.props[nm])
         [] sf.cls = "ContentBody" -> cf.b = sf.b
         [] sf.cls = "Heartbeat" -> TRUE
         [] sf.cls = "ProtocolHeader" -> cf.v = sf.v
         [] OTHER -> LET m == MethodByName(sf.cls) IN
                     \A i \in 1..Len(m.args) : SameValue(cf.vals[m.args[i].n], sf.vals[m.args[i].n])


\* ---- value encode/decode events --------------------------------------------
SpecEnc(pos, lg, v) ==
    CASE pos = "top"   -> EncVal(lg, v)
      [] pos = "table" -> IF v.t = "table" THEN EncTable(lg, v.e) ELSE Err("TypeError")
      [] pos = "array" -> IF v.t = "array"
                          THEN LET w == EncItems(lg, v.e, 1, <<>>) IN
                               IF w.ok THEN Ok(LongLen(Len(w.b)) \o w.b) ELSE w
                          ELSE Err("TypeError")
SpecDec(pos, b) ==
    CASE pos = "top"   -> DecVal(b)
      [] pos = "table" -> DecTable(b)
      [] pos = "array" -> DecArray(b)

SignedTags == { Tg.b, Tg.s, Tg.I, Tg.l }
\* integers and containers of integers only (the C11 statement about TypeError is about integers)
RECURSIVE IntOnly(_)
IntOnly(v) == CASE v.t = "int" -> TRUE
                [] v.t = "table" -> \A i \in 1..Len(v.e) : IntOnly(v.e[i].v)
                [] v.t = "array" -> \A i \in 1..Len(v.e) : IntOnly(v.e[i])
                [] OTHER -> FALSE

\* C10 on typed arguments: bool and int compare numerically (True == 1 is not corruption), a bit
\* argument carries the truth value of what was passed, a falsy non-table where a table is expected
\* is the documented "None == empty table" generalised
Truthy(v) == CASE v.t = "bool" -> v.b
               [] v.t = "int" -> v.mag # <<>>
               [] v.t = "none" -> FALSE
               [] v.t = "str" -> v.cp # <<>>
               [] v.t \in {"table", "array"} -> v.e # <<>>
               [] v.t \in {"bytes", "bytearray"} -> v.b # <<>>
               [] v.t = "float" -> ~(DExp(v.d) = 0 /\ DFracIsZero(v.d))
               [] v.t = "other" -> IF "falsy" \in DOMAIN v THEN ~v.falsy ELSE TRUE
               [] v.t = "dec" -> v.special # "" \/ \E i \in 1..Len(v.digits) : v.digits[i] # 0
               [] OTHER -> TRUE
AsNum(v) == IF v.t = "bool" THEN MkIntV(IF v.b THEN IntOf(1) ELSE IntOf(0)) ELSE v
NumEq(got, want) == SameValue(AsNum(got), AsNum(want))
ArgEq10(ty, got, sent) ==
    CASE ty = "bit" -> got.t = "bool" /\ got.b = Truthy(sent)
      [] ty = "table" -> IF sent.t = "table" THEN SameValue(got, Norm(sent)) ELSE (~Truthy(sent) /\ SameValue(got, MkTable(<<>>)))
      [] OTHER -> NumEq(got, Norm(sent))
ArgExempt10(ty, sent) == IF ty = "table" /\ sent.t # "table" THEN FALSE ELSE Exempt10(sent)

EncodeValue(e) ==
    LET v    == e.in
        spec == SpecEnc(e.pos, legacy, v)
        okc  == e.out.r = "ok"
        wire == IF okc THEN SpecDec(e.pos, e.out.b) ELSE Bad
        want == Norm(v)
        dom03 == Encodable03(v, 32)
    IN
    \* C11: ladder, refusal type, legacy tags
    /\ Chk(e, "C11", "accepted_iff_int64", IntOnly(v) => (spec.ok = okc))
    /\ Chk(e, "C11", "refused_with_TypeError", (IntOnly(v) /\ ~spec.ok /\ spec.err = "TypeError") => (~okc /\ e.out.type = "TypeError"))
    /\ Chk(e, "C11", "refusal_is_an_outcome_like_any_other", ~spec.ok => ~okc)
    /\ Chk(e, "C11", "smallest_fit_bytes", (spec.ok /\ okc) => e.out.b = spec.b)
    /\ Chk(e, "C11", "legacy_only_signed_tags",
           (legacy /\ okc /\ wire.ok) => IntTags(wire.v) \subseteq SignedTags)
    \* C03: accepted, decodes (by the reference decoder and by the code) to the normalised input
    \* (only for values of the statement's domain; what happens outside it is C10's business)
    /\ Chk(e, "C03", "accepted", dom03 => okc)
    /\ Chk(e, "C03", "wire_decodes_to_input",
           (dom03 /\ okc) => (wire.ok /\ wire.n = Len(e.out.b) /\ SameValue(wire.v, want)))
    /\ Chk(e, "C03", "code_decode_ok", (dom03 /\ okc) => e.dec.r = "ok")
    /\ Chk(e, "C03", "code_decode_consumed", (dom03 /\ okc /\ e.dec.r = "ok") => e.dec.n = Len(e.out.b))
    /\ Chk(e, "C03", "code_decode_value", (dom03 /\ okc /\ e.dec.r = "ok") => SameValue(e.dec.v, want))
    \* C04: byte-identical to the reference encoder
    /\ Chk(e, "C04", "accepted", spec.ok => okc)
    /\ Chk(e, "C04", "bytes_equal_reference", (spec.ok /\ okc) => e.out.b = spec.b)
    /\ Unrep(e, spec.ok, okc)
    \* C10: raise, or emit bytes that decode to the input (documented exceptions: Exempt10)
    /\ Chk(e, "C10", "wire_decodes_to_input",
           (okc /\ ~Exempt10(v)) => (wire.ok /\ wire.n = Len(e.out.b) /\ SameValue(wire.v, want)))
    /\ Chk(e, "C10", "code_decodes_to_input",
           (okc /\ ~Exempt10(v)) => (e.dec.r = "ok" /\ e.dec.n = Len(e.out.b) /\ SameValue(e.dec.v, want)))
    \* C15: the specification never reads st.tz -- bytes and decoded instant are functions of the value alone
    /\ Chk(e, "C15", "bytes_independent_of_time_zone", spec.ok => (okc /\ e.out.b = spec.b))
    /\ Chk(e, "C15", "decoded_instant_is_utc", (spec.ok /\ okc) => (e.dec.r = "ok" /\ SameValue(e.dec.v, want)))
    /\ Chk(e, "C16", "concurrent_encode_is_pure", (spec.ok => (okc /\ e.out.b = spec.b)) /\ (~spec.ok => ~okc))
    /\ Chk(e, "C16", "decode_depends_only_on_the_bytes",
           (dom03 /\ okc) => (e.dec.r = "ok" /\ e.dec.n = Len(e.out.b) /\ SameValue(e.dec.v, want)))
    \* the same call, executed again after a storm of other calls in the same interpreter, returns what it returned first
    /\ (IF "first" \in DOMAIN e
        THEN LET \* (the first execution may have run under the other setting of the switch: compared only where the
                 \* specified result does not depend on it)
                 other == SpecEnc(e.pos, ~legacy, v)
                 indep == other.ok = spec.ok /\ (spec.ok => other.b = spec.b)
                 same == ~indep \/ (e.first.r = e.out.r /\ (e.out.r = "ok" => e.first.b = e.out.b)) IN
             /\ Chk(e, "C12", "same_result_as_before_the_storm", same)
             /\ Chk(e, "C16", "same_result_as_before_the_storm", same)
             /\ Chk(e, "C03", "same_result_as_before_the_storm", same)
             /\ Chk(e, "C04", "same_result_as_before_the_storm", same)
             /\ Chk(e, "C10", "same_result_as_before_the_storm", same)
        ELSE TRUE)
    \* C12: deterministic, input untouched, keys ascending at every level
    /\ Chk(e, "C12", "second_encoding_identical", okc => (e.out2.r = "ok" /\ e.out2.b = e.out.b))
    /\ Chk(e, "C12", "input_not_mutated", e.post = e.in)
    /\ Chk(e, "C12", "bytes_equal_sorted_reference", (spec.ok /\ okc) => e.out.b = spec.b)
    /\ Chk(e, "C12", "keys_ascending_at_every_level", (okc /\ wire.ok) => KeysAscending(wire.v))
    /\ UNCHANGED st


\* ---- frame.marshal then frame.unmarshal of the produced bytes ---------------
HeartbeatBytes == <<8, 0, 0, 0, 0, 0, 0, 206>>

RoundTrip(e) ==
    LET f    == e.in
        ch   == e.ch
        spec == Marshal(legacy, f, ch)
        okc  == e.out.r = "ok"
        un   == e.un
        dec  == okc /\ un.r = "ok"
        kind == IF f.cls \in MethodNames THEN "method" ELSE f.cls
    IN
    \* C01: method frames survive encode-then-decode
    /\ Chk(e, "C01", "accepts_valid_assignment", spec.ok => okc)
    /\ Chk(e, "C01", "decodes", okc => un.r = "ok")
    /\ Chk(e, "C01", "consumed_equals_length", dec => un.n = Len(e.out.b))
    /\ Chk(e, "C01", "same_channel", dec => un.ch = ch)
    /\ Chk(e, "C01", "same_class_and_values", dec => SameMethod(f, un.f))
    \* C02: content header and properties
    /\ Chk(e, "C02", "accepts_valid_header", spec.ok => okc)
    /\ Chk(e, "C02", "decodes", okc => un.r = "ok")
    /\ Chk(e, "C02", "consumed_equals_length", dec => un.n = Len(e.out.b))
    /\ Chk(e, "C02", "same_channel", dec => un.ch = ch)
    /\ Chk(e, "C02", "header_fields", dec => (un.f.cls = "ContentHeader" /\ un.f.class_id = 60 /\ un.f.size = f.size))
    /\ Chk(e, "C02", "exactly_the_set_properties",
           (dec /\ un.f.cls = "ContentHeader") => SameProps(f.props, un.f.props))
    /\ Chk(e, "C02", "reencode_reproduces_bytes", dec => (e.re.r = "ok" /\ e.re.b = e.out.b))
    \* C18: body, heartbeat, protocol header
    /\ Chk(e, "C18", "accepted", spec.ok => okc)
    /\ Chk(e, "C18", "bytes", (spec.ok /\ okc) => e.out.b = spec.b)
    /\ Chk(e, "C18", "decodes", okc => un.r = "ok")
    /\ Chk(e, "C18", "consumed_equals_length", dec => un.n = Len(e.out.b))
    /\ Chk(e, "C18", "same_channel", dec => un.ch = (IF kind \in {"ProtocolHeader", "Heartbeat"} THEN 0 ELSE ch))
    /\ Chk(e, "C18", "same_kind", dec => un.f.cls = f.cls)
    /\ Chk(e, "C18", "body_identical",
           (dec /\ kind = "ContentBody" /\ un.f.cls = "ContentBody") => (un.f.b = f.b /\ un.f.len = Len(f.b) /\ f.len = Len(f.b)))
    /\ Chk(e, "C18", "heartbeat_fixed", kind = "Heartbeat" => (okc /\ e.out.b = HeartbeatBytes))
    /\ Chk(e, "C18", "protocol_header_triple",
           (dec /\ kind = "ProtocolHeader" /\ un.f.cls = "ProtocolHeader") => (un.f.v = f.v /\ un.n = 8))
    \* C04: bytes equal the reference encoder
    /\ Chk(e, "C04", "accepted", spec.ok => okc)
    /\ Chk(e, "C04", "bytes_equal_reference", (spec.ok /\ okc) => e.out.b = spec.b)
    /\ Unrep(e, spec.ok, okc)
    \* C10: whatever was passed, bytes that are emitted decode back to it
    /\ Chk(e, "C10", "emitted_frame_decodes", okc => (un.r = "ok" /\ un.n = Len(e.out.b)))
    /\ Chk(e, "C10", "method_arguments_survive",
           (dec /\ kind = "method") =>
               (un.f.cls = f.cls /\ \A i \in 1..Len(MethodByName(f.cls).args) :
                    LET a == MethodByName(f.cls).args[i] IN
                    ArgExempt10(a.ty, f.vals[a.n]) \/ ArgEq10(a.ty, un.f.vals[a.n], f.vals[a.n])))
    /\ Chk(e, "C10", "header_survives",
           (dec /\ kind = "ContentHeader") =>
               (un.f.cls = "ContentHeader" /\ (f.size_ok => un.f.size = f.size)
                /\ \A i \in 1..14 : LET q == Properties[i] IN
                      IF PropSet(f.props[q.n]) THEN ArgExempt10(q.ty, f.props[q.n]) \/ ArgEq10(q.ty, un.f.props[q.n], f.props[q.n])
                      ELSE ~PropSet(un.f.props[q.n])))
    /\ Chk(e, "C10", "channel_survives", (dec /\ kind \notin {"ProtocolHeader", "Heartbeat"}) => un.ch = ch)
    /\ Chk(e, "C10", "body_survives", (dec /\ kind = "ContentBody") => (un.f.cls = "ContentBody" /\ un.f.b = f.b))
    /\ Chk(e, "C10", "version_survives", (dec /\ kind = "ProtocolHeader") => (un.f.cls = "ProtocolHeader" /\ un.f.v = f.v))
    \* C16: under any interleaving with other callers the result is the pure function of the arguments
    /\ Chk(e, "C16", "concurrent_encode_is_pure", (spec.ok => (okc /\ e.out.b = spec.b)) /\ (~spec.ok => ~okc))
    /\ Chk(e, "C16", "concurrent_decode_is_pure",
           dec => LET r == Unmarshal(e.out.b) IN r.k = "frame" => (un.n = r.n /\ un.ch = r.ch /\ SameDecoded(r.f, un.f)))
    \* C15: a frame that carries timestamps (property, header table, arguments): the zone-free reference decides
    /\ Chk(e, "C15", "frame_bytes_independent_of_time_zone", spec.ok => (okc /\ e.out.b = spec.b))
    /\ Chk(e, "C15", "frame_decodes_to_the_encoded_instants",
           dec => LET r == Unmarshal(e.out.b) IN r.k = "frame" => (un.n = r.n /\ SameDecoded(r.f, un.f)))
    /\ (IF "first" \in DOMAIN e
        THEN LET other == Marshal(~legacy, f, ch)
                 indep == other.ok = spec.ok /\ (spec.ok => other.b = spec.b)
                 same == ~indep \/ (e.first.r = e.out.r /\ (e.out.r = "ok" => e.first.b = e.out.b)) IN
             /\ Chk(e, "C12", "same_result_as_before_the_storm", same)
             /\ Chk(e, "C16", "same_result_as_before_the_storm", same)
             /\ Chk(e, "C01", "same_result_as_before_the_storm", same)
             /\ Chk(e, "C02", "same_result_as_before_the_storm", same)
             /\ Chk(e, "C04", "same_result_as_before_the_storm", same)
             /\ Chk(e, "C18", "same_result_as_before_the_storm", same)
        ELSE TRUE)
    \* C12: deterministic and non-mutating
    /\ Chk(e, "C12", "second_encoding_identical", okc => (e.out2.r = "ok" /\ e.out2.b = e.out.b))
    /\ Chk(e, "C12", "frame_not_mutated", e.post = e.in)
    /\ Chk(e, "C12", "bytes_equal_sorted_reference", (spec.ok /\ okc) => e.out.b = spec.b)
    /\ UNCHANGED st

\* ---- fixed-width integer encoders, direct marshal() calls, by_type ----------
FixedSpec(fn, x) ==
    CASE fn = "short_int"     -> IF FitsSigned(x, 2)   THEN Ok(Twos(x, 2))     ELSE Err("TypeError")
      [] fn = "short_uint"    -> IF FitsUnsigned(x, 2) THEN Ok(Unsigned(x, 2)) ELSE Err("TypeError")
      [] fn = "long_int"      -> IF FitsSigned(x, 4)   THEN Ok(Twos(x, 4))     ELSE Err("TypeError")
      [] fn = "long_uint"     -> IF FitsUnsigned(x, 4) THEN Ok(Unsigned(x, 4)) ELSE Err("TypeError")
      [] fn = "long_long_int" -> IF FitsSigned(x, 8)   THEN Ok(Twos(x, 8))     ELSE Err("TypeError")

EncodeFixed(e) ==
    LET spec == FixedSpec(e.fn, IntOfV(e.in)) okc == e.out.r = "ok" IN
    /\ Chk(e, "C11", "fixed_width_accepts_in_range", spec.ok => (okc /\ e.out.b = spec.b))
    /\ Chk(e, "C11", "fixed_width_refuses_with_TypeError", ~spec.ok => (~okc /\ e.out.type = "TypeError"))
    /\ Chk(e, "C04", "bytes_equal_reference", spec.ok => (okc /\ e.out.b = spec.b))
    /\ UNCHANGED st

MarshalPart(e) ==
    LET spec == IF e.kind = "props" THEN EncProps(legacy, e.in.props)
                ELSE LET m == MethodByName(e.in.cls) IN
                     IF Valid(m, e.in.vals) THEN EncArgs(legacy, m, e.in.vals) ELSE Err("ValueError")
        okc == e.out.r = "ok"
    IN
    /\ Chk(e, "C04", "accepted", spec.ok => okc)
    /\ Chk(e, "C04", "bytes_equal_reference", (spec.ok /\ okc) => e.out.b = spec.b)
    /\ Unrep(e, spec.ok, okc)
    /\ UNCHANGED st

EncodeArg(e) ==
    LET spec == EncArg(legacy, e.ty, e.in) okc == e.out.r = "ok"
        wire == IF okc THEN DecArgVal(e.ty, e.out.b) ELSE Bad
    IN
    /\ Chk(e, "C04", "accepted", spec.ok => okc)
    /\ Chk(e, "C04", "bytes_equal_reference", (spec.ok /\ okc) => e.out.b = spec.b)
    /\ Unrep(e, spec.ok, okc)
    /\ Chk(e, "C15", "bytes_independent_of_time_zone", spec.ok => (okc /\ e.out.b = spec.b))
    /\ Chk(e, "C15", "decoded_instant_is_utc", (spec.ok /\ okc) => (e.dec.r = "ok" /\ SameValue(e.dec.v, Norm(e.in))))
    /\ Chk(e, "C10", "wire_decodes_to_input",
           (okc /\ ~ArgExempt10(e.ty, e.in)) => (wire.ok /\ wire.n = Len(e.out.b) /\ ArgEq10(e.ty, wire.v, e.in)))
    /\ Chk(e, "C10", "code_decodes_to_input",
           (okc /\ ~ArgExempt10(e.ty, e.in)) => (e.dec.r = "ok" /\ e.dec.n = Len(e.out.b) /\ ArgEq10(e.ty, e.dec.v, e.in)))
    /\ UNCHANGED st

\* ---- static traces: catalogue (C14), reply codes and constants (C17) --------
SpecKeys == { Methods[i].cid * 65536 + Methods[i].mid : i \in 1..Len(Methods) }
SeqSet(q) == { q[i] : i \in 1..Len(q) }

MappingKeys(e) ==
    /\ Chk(e, "C14", "exactly_the_64_indices", SeqSet(e.keys) = SpecKeys /\ e.n = 64 /\ Len(e.keys) = 64)
    /\ UNCHANGED st

DefaultOk(got, a) == IF a.def.t = "nodef" THEN got.t = "none" ELSE SameValue(got, a.def)

CatalogEntry(e) ==
    LET c == e.key \div 65536 mid == e.key % 65536
        known == HasMethodId(c, mid)
        m == MethodById(c, mid)
        n == Len(m.args)
    IN
    /\ Chk(e, "C14", "key_is_a_specified_method", known)
    /\ Chk(e, "C14", "index", known => e.index = e.key)
    /\ Chk(e, "C14", "method_id", known => e.frame_id = mid)
    /\ Chk(e, "C14", "dotted_name", known => e.name = m.name)
    /\ Chk(e, "C14", "argument_names_in_wire_order", known => (e.slots = ArgNames(m) /\ e.attributes = ArgNames(m)))
    /\ Chk(e, "C14", "argument_wire_types", known => e.types = [i \in 1..n |-> m.args[i].ty])
    /\ Chk(e, "C14", "expects_reply_flag", known => (e.sync = Synchronous(m) /\ e.sync_is_bool))
    /\ Chk(e, "C14", "valid_replies", known => e.responses = m.resp)
    /\ Chk(e, "C14", "reply_iff_synchronous", e.sync = (e.responses # <<>>))
    /\ Chk(e, "C14", "constructor_defaults",
           (known /\ Len(e.defaults) = n) => \A i \in 1..n : DefaultOk(e.defaults[i], m.args[i]))
    \* (a default the class documentation STATES must be the specification's; documentation that states none, or in a
    \* wording the reader of docstrings does not recognise, says nothing)
    /\ Chk(e, "C14", "documented_defaults", (known /\ Len(e.docs) = n) => \A i \in 1..n : e.docs[i] = "" \/ e.docs[i] = m.args[i].doc)
    \* arguments given by POSITION are taken in wire order, and an argument that is given -- also a falsy one -- is stored as
    \* given (first pass only: values passed by position, then all-falsy values by name, read back by name)
    /\ Chk(e, "C14", "constructor_takes_arguments_in_wire_order",
           ("pos_in" \in DOMAIN e /\ Len(e.pos_in) > 0) => e.pos_back = e.pos_in)
    /\ UNCHANGED st

PropertiesEntry(e) ==
    /\ Chk(e, "C14", "properties_names_in_order", e.slots = [i \in 1..14 |-> Properties[i].n])
    /\ Chk(e, "C14", "properties_wire_types", e.types = [i \in 1..14 |-> Properties[i].ty])
    /\ Chk(e, "C14", "properties_flag_bits_15_to_2", e.flags = [i \in 1..14 |-> Properties[i].flag] /\ e.nflags = 14)
    /\ Chk(e, "C14", "properties_ids", e.frame_id = 60 /\ e.index = 60 /\ e.name = "Basic.Properties")
    /\ Chk(e, "C14", "properties_defaults",
           Len(e.defaults) = 14 /\ \A i \in 1..14 :
               IF Properties[i].n = "cluster_id" THEN e.defaults[i] = MkStr(<<>>) ELSE e.defaults[i].t = "none")
    /\ UNCHANGED st

ClassIds == [Connection |-> 10, Channel |-> 20, Exchange |-> 40, Queue |-> 50, Basic |-> 60, Tx |-> 90, Confirm |-> 85]
ClassEntry(e) ==
    /\ Chk(e, "C14", "class_id", e.frame_id = ClassIds[e.name] /\ e.index = ClassIds[e.name] * 65536)
    /\ UNCHANGED st

ReplyKeys(e) ==
    /\ Chk(e, "C17", "exactly_the_specified_codes", SeqSet(e.keys) = { ReplyCodes[i].value : i \in 1..18 } /\ Len(e.keys) = 18)
    /\ Chk(e, "C17", "one_class_per_code", Cardinality(SeqSet(e.classes)) = 18)
    /\ UNCHANGED st

ReplyCode(e) ==
    LET known == \E i \in 1..18 : ReplyCodes[i].value = e.key
        r == ReplyCodes[CHOOSE i \in 1..18 : ReplyCodes[i].value = e.key]
    IN
    /\ Chk(e, "C17", "code_is_specified", known)
    /\ Chk(e, "C17", "numeric_value", known => e.value = r.value)
    /\ Chk(e, "C17", "upper_case_name", known => e.name = r.name)
    /\ Chk(e, "C17", "soft_or_hard_base", known => (e.soft = (r.kind = "soft") /\ e.hard = (r.kind = "hard")))
    /\ Chk(e, "C17", "common_bases", e.amqp /\ e.base /\ e.is_exc)
    /\ UNCHANGED st

ConstantsEv(e) ==
    LET c == e.c k == Constants IN
    /\ Chk(e, "C17", "frame_types", c.FRAME_METHOD = k.FRAME_METHOD /\ c.FRAME_HEADER = k.FRAME_HEADER
                                     /\ c.FRAME_BODY = k.FRAME_BODY /\ c.FRAME_HEARTBEAT = k.FRAME_HEARTBEAT)
    /\ Chk(e, "C17", "frame_end", c.FRAME_END = k.FRAME_END /\ c.FRAME_END_CHAR = k.FRAME_END_CHAR)
    /\ Chk(e, "C17", "frame_min_size", c.FRAME_MIN_SIZE = k.FRAME_MIN_SIZE)
    /\ Chk(e, "C17", "header_size", c.FRAME_HEADER_SIZE = k.FRAME_HEADER_SIZE)
    /\ Chk(e, "C17", "protocol_version", c.VERSION = k.VERSION /\ c.AMQP = k.AMQP)
    /\ UNCHANGED st

UnmarshalingExc(e) ==
    /\ Chk(e, "C17", "unmarshaling_exception_base", e.base)
    /\ UNCHANGED st

\* ---- frame.unmarshal on arbitrary bytes (C05, C06, C08, C09, C13) ------------
KindOfType(ty, cls) == CASE ty = 1 -> cls \in MethodNames
                         [] ty = 2 -> cls = "ContentHeader"
                         [] ty = 3 -> cls = "ContentBody"
                         [] ty = 8 -> cls = "Heartbeat"
                         [] OTHER -> FALSE

\* whatever is returned is what the frame's own 7-byte header says
EnvelopeTruth(b, o) ==
    IF o.f.cls = "ProtocolHeader" THEN Take(b, 4) = AMQPLit /\ o.n = 8 /\ Len(b) >= 8
    ELSE /\ Len(b) >= 7 /\ HdrSize(b) >= 0
         /\ o.n = HdrSize(b) + 8 /\ o.n <= Len(b) /\ b[o.n] = FrameEnd
         /\ o.ch = HdrChannel(b)
         /\ KindOfType(HdrType(b), o.f.cls)

UnmarshalEv(e) ==
    LET b    == e.b
        spec == Unmarshal(b)
        o    == e.out
        okc  == o.r = "ok"
        wf   == spec.k = "frame"
    IN
    /\ (IF "wf" \in DOMAIN e THEN Premise(e, "crafted_frame_is_well_formed", wf) ELSE TRUE)
    /\ Chk(e, "C05", "accepts_well_formed", wf => okc)
    /\ Chk(e, "C05", "consumes_whole_frame", (wf /\ okc) => (o.n = spec.n /\ o.ch = spec.ch))
    /\ Chk(e, "C05", "reference_values", (wf /\ okc) => SameDecoded(spec.f, o.f))
    /\ Chk(e, "C13", "no_validation_on_receive", wf => (okc /\ o.n = spec.n /\ SameDecoded(spec.f, o.f)))
    \* (the driver says: b is a strict prefix of the valid frame e.full -- re-decided here)
    /\ (IF "full" \in DOMAIN e
        THEN /\ Premise(e, "is_strict_prefix_of_one_valid_frame",
                        LET u == Unmarshal(e.full) IN u.k = "frame" /\ u.n = Len(e.full) /\ Len(b) < Len(e.full) /\ Take(e.full, Len(b)) = b)
             /\ Chk(e, "C07", "prefix_raises_only_UnmarshalingException", o.r = "exc" /\ o.lib /\ o.type = "UnmarshalingException")
        ELSE TRUE)
    \* (the driver says: b is a strict prefix of SOME valid body frame -- re-decided here: any payload is a valid body, so a
    \* type-3 header announcing size > 0 followed by fewer than size + 1 bytes is such a prefix)
    /\ (IF "body_prefix" \in DOMAIN e
        THEN /\ Premise(e, "is_strict_prefix_of_a_valid_body_frame",
                        \* (HdrSize is -1 for sizes of 2^30 and more, which no buffer here approaches)
                        Len(b) >= 7 /\ HdrType(b) = 3 /\ (HdrSize(b) = -1 \/ (HdrSize(b) > 0 /\ Len(b) < HdrSize(b) + 8)))
             /\ Chk(e, "C07", "prefix_never_yields_a_frame", ~okc)
             /\ Chk(e, "C07", "prefix_raises_only_UnmarshalingException", o.r = "exc" /\ o.lib /\ o.type = "UnmarshalingException")
        ELSE TRUE)
    /\ Chk(e, "C06", "envelope_truth", okc => EnvelopeTruth(b, o))
    /\ Chk(e, "C18", "frame_followed_by_more_bytes",
           wf => (okc /\ o.n = spec.n /\ o.ch = spec.ch /\ SameDecoded(spec.f, o.f)))
    /\ Chk(e, "C06", "valid_frame_decoded_exactly",
           wf => (okc /\ o.n = spec.n /\ o.ch = spec.ch /\ SameDecoded(spec.f, o.f)))
    /\ Chk(e, "C16", "concurrent_decode_is_pure",
           (wf => (okc /\ o.n = spec.n /\ o.ch = spec.ch /\ SameDecoded(spec.f, o.f)))
           /\ (spec.k \in {"incomplete", "malformed"} => (o.r = "exc" \/ (okc /\ spec.k = "malformed"))))
    \* information, never a verdict: the reference calls the input malformed and the code returns a frame (the decoder's
    \* LENIENCY, Appendix C item 4); counted per input family into the evidence file and compared with leniency_pin.json
    /\ (IF spec.k = "malformed" /\ okc THEN PrintT(<< "INFO", e.id, "lenient" >>) ELSE TRUE)
    /\ Chk(e, "C09", "only_library_exception", o.r = "exc" => (o.lib /\ o.type = "UnmarshalingException"))
    /\ Chk(e, "C08", "terminates_within_step_budget", o.r # "budget")
    /\ Chk(e, "C08", "steps_linear_in_input", e.steps <= 16 * Len(b) + 256)
    /\ Chk(e, "C08", "memory_proportional_to_input", e.peak <= 256 * Len(b) + 1048576)
    /\ UNCHANGED st

\* every strict prefix of a valid frame (C07)
CutOk(c)  == c.r = "exc" /\ c.lib /\ c.type = "UnmarshalingException"
CutSet(e) ==
    LET b == e.b full == Unmarshal(b) n == Len(e.cuts)
        bad1 == { i \in 1..n : e.cuts[i].r = "ok" }
        bad2 == { i \in 1..n : e.cuts[i].r = "exc" /\ ~CutOk(e.cuts[i]) }
        bad3 == { i \in 1..n : e.cuts[i].r = "ok" /\ e.cuts[i].n > e.cuts[i].k }
    IN
    /\ Premise(e, "cuts_are_strict_prefixes", \A i \in 1..n : e.cuts[i].k >= 0 /\ e.cuts[i].k < Len(b))
    /\ IF ~(full.k = "frame" /\ full.n = Len(b)) THEN Skip(e, "the_encoder_did_not_produce_one_valid_frame")
       ELSE
       /\ ChkD(e, "C07", "prefix_never_yields_a_frame", bad1 = {}, IF bad1 = {} THEN -1 ELSE e.cuts[CHOOSE i \in bad1 : TRUE].k)
       /\ ChkD(e, "C07", "prefix_raises_only_UnmarshalingException", bad2 = {},
               IF bad2 = {} THEN -1 ELSE e.cuts[CHOOSE i \in bad2 : TRUE].k)
       /\ ChkD(e, "C07", "never_consumes_more_than_supplied", bad3 = {}, IF bad3 = {} THEN -1 ELSE e.cuts[CHOOSE i \in bad3 : TRUE].k)
       /\ Chk(e, "C07", "complete_frame_is_returned", e.full.r = "ok" /\ e.full.n = Len(b))
    /\ UNCHANGED st

\* header peek (C20)
FramePartsEv(e) ==
    LET spec == FrameParts(e.b) o == e.out IN
    /\ Chk(e, "C20", "never_raises", o.r = "ok")
    /\ Chk(e, "C20", "header_fields_big_endian_unsigned",
           (spec.ok /\ o.r = "ok") => (o.shape /\ o.type = spec.type /\ o.ch = spec.ch /\ o.size = spec.size))
    /\ Chk(e, "C20", "short_buffer_gives_no_frame_triple",
           (~spec.ok /\ o.r = "ok") => (o.shape /\ o.type = 0 /\ o.ch = 0 /\ o.size_none))
    /\ UNCHANGED st

\* encode a frame, peek at header + tail, read size + 8 bytes, decode (C20)
Peek(e) ==
    LET okc == e.out.r = "ok" IN
    /\ Premise(e, "peek_of_an_encodable_frame", okc /\ e.in.cls # "ProtocolHeader")
    /\ Chk(e, "C20", "peek_never_raises", e.fp.r = "ok" /\ e.fp.shape)
    /\ Chk(e, "C20", "size_plus_8_is_frame_length", okc => e.fp.size = U32(Len(e.out.b) - 8))
    /\ Chk(e, "C20", "peeked_channel", okc => e.fp.ch = (IF e.in.cls = "Heartbeat" THEN 0 ELSE e.ch))
    /\ Chk(e, "C20", "decoder_accepts_size_plus_8_bytes",
           okc => (e.un.r = "ok" /\ e.un.n = Len(e.out.b) /\ e.un.ch = e.fp.ch /\ e.un.f.cls = e.in.cls))
    /\ UNCHANGED st

\* decode.embedded_value / field_table / field_array on grammar-generated bytes (C05)
DecodeValueEv(e) ==
    LET spec == SpecDec(e.pos, e.b) o == e.out okc == o.r = "ok" IN
    /\ Chk(e, "C05", "accepts_well_formed_value", spec.ok => okc)
    /\ Chk(e, "C05", "consumes_value", (spec.ok /\ okc) => o.n = spec.n)
    /\ Chk(e, "C05", "reference_value", (spec.ok /\ okc) => SameValue(o.v, spec.v))
    /\ Chk(e, "C15", "decoded_instant_is_utc", spec.ok => (okc /\ o.n = spec.n /\ SameValue(o.v, spec.v)))
    /\ Chk(e, "C08", "terminates_within_step_budget", o.r # "budget")
    /\ Chk(e, "C08", "steps_linear_in_input", e.steps <= 16 * Len(e.b) + 256)
    /\ Chk(e, "C05", "unrepresentable_timestamp_refused",
           (e.pos = "top" /\ Len(e.b) = 9 /\ e.b[1] = Tg.T /\ ~spec.ok) => o.r = "exc")
    /\ UNCHANGED st

\* ---- construction-time and marshal-time validation (C13) ---------------------
IsProps(cls) == cls = "Basic.Properties"
PropArgValid(n, v) ==
    \/ v.t = "none"
    \/ CASE n = "cluster_id" -> v.t = "str" /\ v.cp = <<>>
         [] n = "delivery_mode" -> v.t = "int" /\ ~v.neg /\ v.mag \in {<<1>>, <<2>>}
         [] OTHER -> TRUE

Construct(e) ==
    LET given == DOMAIN e.args
        valid == IF IsProps(e.cls) THEN \A n \in given : (n # "_" => PropArgValid(n, e.args[n]))
                 ELSE LET m == MethodByName(e.cls) IN
                      \A i \in 1..Len(m.args) : (m.args[i].n \in given) => ArgValid(e.cls, m.args[i], e.args[m.args[i].n])
    IN
    /\ Chk(e, "C13", "valid_arguments_accepted", valid => e.out.r = "ok")
    /\ Chk(e, "C13", "broken_constraint_raises_ValueError", ~valid => (e.out.r = "exc" /\ e.out.type = "ValueError"))
    /\ UNCHANGED st

SetThenMarshal(e) ==
    LET m == MethodByName(e.cls) valid == Valid(m, e.in.vals) IN
    /\ Chk(e, "C13", "marshal_rejects_broken_constraint", ~valid => (e.out.r = "exc" /\ e.out.type = "ValueError"))
    /\ Chk(e, "C13", "marshal_accepts_valid_values", valid => ~(e.out.r = "exc" /\ e.out.type = "ValueError"))
    \* a retry of the same, untouched object is judged like the first attempt
    /\ (IF "again" \in DOMAIN e
        THEN /\ Chk(e, "C13", "retry_still_rejects_broken_constraint", ~valid => (e.again.r = "exc" /\ e.again.type = "ValueError"))
             /\ Chk(e, "C13", "retry_still_accepts_valid_values", valid => ~(e.again.r = "exc" /\ e.again.type = "ValueError"))
        ELSE TRUE)
    /\ UNCHANGED st

\* a frame object built from explicit arguments holds what it was given (protocol header octets -- also zeros --, body bytes,
\* header weight / size / properties): the round-trip clauses start from the OBJECT, this one from the REQUEST
BuildFrame(e) ==
    /\ Chk(e, "C18", "constructor_keeps_what_it_was_given", e.kind \in {"ProtocolHeader", "ContentBody"} => (e.r = "ok" /\ e.got = e.want))
    /\ Chk(e, "C02", "constructor_keeps_what_it_was_given", e.kind = "ContentHeader" => (e.r = "ok" /\ e.got = e.want))
    /\ UNCHANGED st

CharBlock(e) ==
    /\ Chk(e, "C13", "name_character_class", SeqSet(e.accepted) = { c \in e.lo..e.hi : c \in NameChars })
    /\ Chk(e, "C13", "only_ValueError", e.other = <<>>)
    /\ UNCHANGED st

\* ---- mapping protocol (C19) --------------------------------------------------
Observe(e) ==
    LET names == IF IsProps(e.cls) THEN [i \in 1..14 |-> Properties[i].n] ELSE ArgNames(MethodByName(e.cls))
        types == IF IsProps(e.cls) THEN [i \in 1..14 |-> Properties[i].ty]
                 ELSE [i \in 1..Len(names) |-> MethodByName(e.cls).args[i].ty]
        n == Len(names)
        ok == e.r = "ok"
    IN
    /\ Chk(e, "C19", "observers_do_not_raise", ok)
    /\ Chk(e, "C19", "iteration_names_in_wire_order", ok => e.iter_names = names)
    /\ Chk(e, "C19", "iteration_pairs_current_values",
           (ok /\ Len(e.iter_vals) = n) => \A i \in 1..n : e.iter_vals[i] = e.attrs[names[i]])
    /\ Chk(e, "C19", "dict_equals_attributes",
           (ok /\ Len(e.dict_vals) = n) => (e.dict_names = names /\ \A i \in 1..n : e.dict_vals[i] = e.attrs[names[i]]))
    /\ Chk(e, "C19", "overlapping_iterations_independent",
           ok => (e.zip_first = names /\ e.zip_second = names /\ e.nested = n * n /\ e.partial = names))
    /\ Chk(e, "C19", "length", ok => e.len = n)
    /\ Chk(e, "C19", "membership", ok => ((\A i \in 1..Len(e.contains) : e.contains[i]) /\ Len(e.contains) = n
                                          /\ \A i \in 1..Len(e.contains_probe) : ~e.contains_probe[i]))
    /\ Chk(e, "C19", "item_access", (ok /\ Len(e.getitem) = n) => \A i \in 1..n : e.getitem[i] = e.attrs[names[i]])
    /\ Chk(e, "C19", "attribute_list", ok => e.attributes = names)
    /\ Chk(e, "C19", "wire_types", ok => e.types = types)
    /\ UNCHANGED st

\* ---- the byte stream between a sender and a receiver (Stream.tla; C06, C07, C20) ----
StreamReset(e) == st' = [st EXCEPT !.wire = <<>>, !.buf = <<>>, !.sent = <<>>, !.got = 0, !.used = 0, !.void = FALSE]

\* (a session in which the ENCODER failed to produce a valid frame says nothing about the receiver: void until the next reset)
SendEv(e) ==
    LET r == IF e.out.r = "ok" THEN Unmarshal(e.out.b) ELSE Malformed IN
    IF st.void THEN UNCHANGED st
    ELSE IF ~(e.out.r = "ok" /\ r.k = "frame" /\ r.n = Len(e.out.b))
    THEN Skip(e, "the_encoder_did_not_produce_one_valid_frame") /\ st' = [st EXCEPT !.void = TRUE]
    ELSE st' = [st EXCEPT !.wire = @ \o e.out.b, !.sent = Append(@, e.out.b)]

DeliverEv(e) ==
    IF st.void THEN UNCHANGED st ELSE
    /\ Premise(e, "deliver_within_wire", e.k >= 1 /\ e.k <= Len(st.wire))
    /\ Chk(e, "C06", "receiver_buffer_length", e.buflen = Len(st.buf) + e.k)
    /\ Chk(e, "C20", "receiver_buffer_length", e.buflen = Len(st.buf) + e.k)
    /\ st' = [st EXCEPT !.buf = @ \o Take(st.wire, e.k), !.wire = Drop(@, e.k)]

\* one receiver step on the bytes b (st.buf, or exactly the peeked frame); prop = the judging property
DecodeStep(e, prop, b) ==
    LET r == Unmarshal(b) o == e.out IN
    IF r.k = "frame" THEN
        /\ Chk(e, prop, "complete_frame_is_returned", o.r = "ok")
        /\ Chk(e, prop, "consumes_exactly_one_frame", o.r = "ok" => o.n = r.n)
        /\ Chk(e, prop, "frame_channel", o.r = "ok" => o.ch = r.ch)
        /\ Chk(e, prop, "frame_content", o.r = "ok" => SameDecoded(r.f, o.f))
        /\ Chk(e, prop, "frames_arrive_in_order", st.got < Len(st.sent) /\ Take(b, r.n) = st.sent[st.got + 1])
        /\ st' = [st EXCEPT !.buf = Drop(@, r.n), !.got = @ + 1, !.used = @ + r.n]
    ELSE IF r.k = "incomplete" THEN
        /\ Chk(e, prop, "incomplete_frame_means_wait", o.r = "exc" /\ o.lib /\ o.type = "UnmarshalingException")
        /\ UNCHANGED st
    ELSE /\ Chk(e, prop, "envelope_truth", o.r = "ok" => EnvelopeTruth(b, o))
         /\ st' = [st EXCEPT !.buf = IF o.r = "ok" THEN Drop(@, o.n) ELSE @]

TryDecodeEv(e) ==
    IF st.void THEN UNCHANGED st ELSE
    /\ Chk(e, "C06", "receiver_buffer_length", e.buflen = Len(st.buf))
    /\ DecodeStep(e, "C06", st.buf)

\* size-reading receiver: frame_parts, then exactly size + 8 bytes
PeekReadEv(e) ==
    LET p == FrameParts(st.buf) IN
    IF st.void THEN UNCHANGED st ELSE
    /\ Chk(e, "C20", "receiver_buffer_length", e.buflen = Len(st.buf))
    /\ IF Take(st.buf, 4) = AMQPLit THEN DecodeStep(e, "C20", st.buf)
       ELSE IF ~p.ok THEN
            /\ Chk(e, "C20", "short_buffer_gives_no_frame_triple", e.fp.r = "ok" /\ e.fp.size_none /\ e.out.r = "wait")
            /\ UNCHANGED st
       ELSE LET need == Len32(p.size) + 8 IN
            /\ Chk(e, "C20", "peek_matches_header", e.fp.r = "ok" /\ e.fp.type = p.type /\ e.fp.ch = p.ch /\ e.fp.size = p.size)
            /\ IF Len(st.buf) < need THEN Chk(e, "C20", "waits_for_size_plus_8", e.out.r = "wait") /\ UNCHANGED st
               ELSE DecodeStep(e, "C20", Take(st.buf, need))

Quiesce(e) ==
    IF st.void THEN UNCHANGED st ELSE
    /\ Premise(e, "everything_was_delivered", st.wire = <<>>)
    /\ Chk(e, "C06", "all_frames_received_buffer_empty", st.got = Len(st.sent) /\ st.buf = <<>> /\ e.buflen = 0 /\ e.got = st.got)
    /\ Chk(e, "C20", "all_frames_received_buffer_empty", st.got = Len(st.sent) /\ st.buf = <<>> /\ e.buflen = 0 /\ e.got = st.got)
    /\ UNCHANGED st

\* two tables with equal contents, different insertion order (C12)
SameBytes(e) ==
    /\ Premise(e, "same_contents", SameValue(e.in1, e.in2))
    /\ Chk(e, "C12", "insertion_order_irrelevant", e.out1.r = e.out2.r /\ (e.out1.r = "ok" => e.out1.b = e.out2.b))
    /\ UNCHANGED st

\* ---- request/reply matching from the class metadata (Rpc.tla; beyond the listed properties, judged under C14) ----
RpcReset(e) == st' = [st EXCEPT !.rpc = [c \in 0..7 |-> ""]]
RpcSend(e) ==
    /\ Premise(e, "channel_not_waiting", st.rpc[e.ch] = "")
    /\ Chk(e, "C14", "expects_reply_flag_in_use", e.name \in MethodNames /\ e.waits = Waits(e.name))
    /\ st' = [st EXCEPT !.rpc[e.ch] = IF e.name \in MethodNames /\ Waits(e.name) THEN e.name ELSE ""]
RpcRecv(e) ==
    /\ Premise(e, "channel_waiting", st.rpc[e.ch] # "")
    /\ Chk(e, "C14", "reply_matched_by_valid_replies", e.accepted = IsReplyTo(e.name, st.rpc[e.ch]))
    /\ st' = [st EXCEPT !.rpc[e.ch] = IF IsReplyTo(e.name, st.rpc[e.ch]) THEN "" ELSE @]

\* ---- the connection life cycle (Conn.tla; beyond the listed properties): conversations generated by TLC from the design
\* model are spoken with real frames; what the receiving decoder reports must be the scripted frame, must be a legal
\* next frame of the protocol machine, and must carry the metadata the machine relies on ----
ConnEv(x, wire) == [dir |-> x.dir, ch |-> x.ch, kind |-> x.kind, name |-> x.name, size |-> x.size, wire |-> wire, fm |-> x.fm, cm |-> x.cm]
KindProp(k) == IF k = "method" THEN "C01" ELSE IF k = "header" THEN "C02" ELSE "C18"
ConnReset(e) == st' = [st EXCEPT !.conn = ConnInit]
ConnFrame(e) ==
    LET got == ConnEv(e, e.wire)
        want == ConnEv(e.want, e.mlen)
        nominal == ConnEv(e.want, IF e.want.kind = "body" THEN e.want.size + 8 ELSE 8)
        scripted == e.want.kind # "none"
        same == scripted /\ got.dir = want.dir /\ got.ch = want.ch /\ got.kind = want.kind /\ got.name = want.name
                /\ got.size = want.size /\ got.fm = want.fm /\ got.cm = want.cm
        known == e.kind = "method" /\ e.name \in MethodNames
    IN
    \* (the legality of the SCRIPT is the generator's business and is decided with nominal lengths; lengths measured on
    \* what the library marshalled enter the clauses below)
    /\ Premise(e, "scripted_frame_is_legal", ~scripted \/ ConnLegal(st.conn, nominal))
    \* the frame the peer decoded is the frame that was marshalled (round trip through a byte stream cut anywhere)
    /\ Chk(e, "C01", "session_frame_survives", want.kind = "method" => same)
    /\ Chk(e, "C02", "session_frame_survives", want.kind = "header" => same)
    /\ Chk(e, "C18", "session_frame_survives", want.kind \in {"body", "heartbeat", "proto"} => same)
    /\ Chk(e, "C06", "session_consumed_is_frame_length", scripted /\ e.wire = e.mlen)
    /\ Chk(e, "C20", "session_consumed_is_frame_length", scripted /\ e.wire = e.mlen)
    \* what the decoder reports is a legal next step of the protocol machine (sizes as measured on the real wire)
    /\ Chk(e, "C06", "session_stays_legal", (e.kind # "method" \/ e.name \in MethodNames) /\ ConnLegal(st.conn, got))
    /\ Chk(e, "C18", "session_stays_legal", (e.kind # "method" \/ e.name \in MethodNames) /\ ConnLegal(st.conn, got))
    /\ Chk(e, "C20", "session_stays_legal", (e.kind # "method" \/ e.name \in MethodNames) /\ ConnLegal(st.conn, got))
    /\ Chk(e, "C14", "session_stays_legal", (e.kind # "method" \/ e.name \in MethodNames) /\ ConnLegal(st.conn, got))
    \* the metadata a client drives the machine with
    /\ Chk(e, "C14", "session_metadata", e.kind = "method" =>
             (known /\ e.sync = Waits(e.name) /\ { e.resp[i] : i \in 1..Len(e.resp) } = Resp(e.name)))
    /\ st' = [st EXCEPT !.conn = IF scripted /\ ConnLegal(@, nominal) THEN ConnStep(@, nominal) ELSE @]
ConnQuiesce(e) ==
    /\ Chk(e, "C06", "session_all_frames_received", e.left = 0 /\ e.inflight = 0)
    /\ Chk(e, "C18", "session_all_frames_received", e.left = 0 /\ e.inflight = 0)
    /\ Chk(e, "C20", "session_all_frames_received", e.left = 0 /\ e.inflight = 0)
    /\ Chk(e, "C14", "session_all_frames_received", e.left = 0 /\ e.inflight = 0)
    /\ UNCHANGED st

\* ---- content assembly (Content.tla; beyond the listed properties, judged under C18) ----
CChans == 0..7
ToC(f) == IF f.cls = "ContentHeader" THEN [kind |-> "header", size |-> NatOfMag(f.size)]
          ELSE IF f.cls = "ContentBody" THEN [kind |-> "body", b |-> f.b]
          ELSE IF f.cls = "Heartbeat" THEN [kind |-> "heartbeat"]
          ELSE [kind |-> "method", name |-> f.cls]
CReset(e) == st' = [st EXCEPT !.asm = [c \in CChans |-> Idle], !.cdel = [c \in CChans |-> <<>>], !.cpub = [c \in CChans |-> <<>>]]
CPublish(e) == st' = [st EXCEPT !.cpub[e.ch] = Append(@, [method |-> e.method, size |-> Len(e.body), body |-> e.body])]
CFrame(e) ==
    LET ch == IF e.f.cls = "Heartbeat" THEN 0 ELSE e.ch
        a  == Feed(st.asm[ch], ToC(e.f))
        k  == Len(st.cdel[ch]) + 1
    IN
    /\ Premise(e, "content_size_fits", e.f.cls # "ContentHeader" \/ FitsNat31(e.f.size))
    /\ Chk(e, "C18", "content_frames_in_protocol_order", a.mode # "error")
    /\ Chk(e, "C18", "message_complete_when_sizes_add_up", e.done = (a.mode = "done"))
    /\ Chk(e, "C18", "assembled_message_is_the_published_one",
           a.mode = "done" => (k <= Len(st.cpub[ch]) /\ MessageOf(a) = st.cpub[ch][k]
                               /\ (e.done => (e.msg.body = a.acc /\ e.msg.method = a.method /\ e.msg.size = a.size))))
    /\ st' = [st EXCEPT !.asm[ch] = Settle(a), !.cdel[ch] = IF a.mode = "done" THEN Append(@, MessageOf(a)) ELSE @]
CQuiesce(e) ==
    /\ Chk(e, "C18", "every_published_message_delivered_in_order", \A c \in CChans : st.cdel[c] = st.cpub[c])
    /\ UNCHANGED st

\* the same bytes decoded twice in one history give the same outcome (C16)
SameResult(e) ==
    /\ Chk(e, "C16", "same_input_same_result",
           /\ e.out1.r = e.out2.r
           /\ (e.out1.r = "ok" => (e.out1.n = e.out2.n /\ e.out1.ch = e.out2.ch /\ e.out1.f = e.out2.f))
           /\ (e.out1.r = "exc" => e.out1.type = e.out2.type))
    /\ UNCHANGED st

UndefinedCodes(e) ==
    LET spec == { ReplyCodes[i].value : i \in 1..18 } IN
    /\ Chk(e, "C17", "exactly_the_specified_codes_by_lookup",
           /\ SeqSet(e.subscript_ok) = spec /\ SeqSet(e.contains) = spec /\ SeqSet(e.get_ok) = spec
           /\ e.other_exc = <<>>)
    /\ UNCHANGED st

ToggleArg(a) == IF a = "false" THEN FALSE ELSE TRUE      \* "true", "noarg" -> TRUE

\* ---- the object world (Api.tla): identity, aliasing, purity (C16, C12) -----------
\* st.heap  : Seq([cls, vals, cell])     vals: argument -> abstract value ; cell: index into st.cells or 0
\* st.cells : Seq([kind, v, owner])      kind "table" (v = abstract table) | "props" (v = property record)
\* st.ucell : Seq(cell index)            the j-th container the USER created (dict or Basic.Properties)
H == st.heap

\* -- the observation logged after every action agrees with the specified state --
ObjAgrees(h, o, s) ==
    /\ s.cls = o.cls
    /\ IF o.cls = "ContentHeader" THEN s.f.size = o.vals.size /\ \A nm \in PropNames : SameValue(s.f.props[nm], h.cells[o.cell].v[nm])
       ELSE IF o.cls \in MethodNames THEN
            LET v == ViewOf(h, o).vals IN \A a \in DOMAIN o.vals : SameValue(s.f.vals[a], v[a])
       ELSE TRUE

SnapAgrees(h, e) ==
    /\ Len(e.snap) = Len(h.heap)
    /\ \A i \in 1..Len(h.heap) : ObjAgrees(h, h.heap[i], e.snap[i])
IdentityAgrees(h, e) ==
    /\ \A i, j \in 1..Len(h.heap) :
          (h.heap[i].cell # 0 /\ h.heap[j].cell # 0 /\ Len(e.snap) = Len(h.heap)) =>
              ((e.snap[i].cid = e.snap[j].cid) <=> (h.heap[i].cell = h.heap[j].cell))
    /\ \A i \in 1..Len(h.heap), j \in 1..Len(h.ucell) :
          (h.heap[i].cell # 0 /\ Len(e.snap) = Len(h.heap) /\ Len(e.uids) = Len(h.ucell)) =>
              ((e.snap[i].cid = e.uids[j]) <=> (h.heap[i].cell = h.ucell[j]))
HStep(e, h2) ==
    /\ Chk(e, "C16", "objects_have_the_specified_values", SnapAgrees(h2, e))
    /\ Chk(e, "C16", "containers_shared_exactly_as_specified", IdentityAgrees(h2, e))
    /\ Chk(e, "C16", "library_containers_are_fresh", FreshLibraryCells(h2))
    /\ Chk(e, "C12", "encoding_does_not_mutate", SnapAgrees(h2, e))
    /\ st' = [st EXCEPT !.heap = h2]

\* (once the code has produced an object the specification says cannot exist -- a frame decoded from bytes that are no frame --
\* the two object worlds are out of step: reported once, then the session is void until the next reset)
HReset(e) == st' = [st EXCEPT !.heap = HeapInit, !.hvoid = FALSE]
HGuard(e, act) == IF st.hvoid THEN UNCHANGED st
                  ELSE IF ("i" \in DOMAIN e /\ e.a \in {"HMutate", "HSetAttr", "HSetSlot", "HMarshal"} /\ e.i \notin DOMAIN st.heap.heap
                           /\ ~(e.a = "HMutate" /\ e.via # "obj"))
                       THEN Chk(e, "C16", "object_world_in_step", FALSE) /\ st' = [st EXCEPT !.hvoid = TRUE]
                       ELSE act
HNewDict(e) == HStep(e, HNewUser(H, "table", e.v))
HNewProps(e) == HStep(e, HNewUser(H, "props", e.v))
HConstruct(e) ==
    LET ok == e.out.r = "ok"
        h2 == IF ~ok THEN H
              ELSE IF e.cls = "ContentHeader" THEN HConstructHeader(H, e.size, e.uref)
              ELSE HConstructMethod(H, e.cls, e.kw, e.uref)
    IN HStep(e, h2)
HMutate(e) ==
    LET c == IF e.via = "obj" THEN H.heap[e.i].cell ELSE H.ucell[e.i] IN HStep(e, HMutateCell(H, c, e.key, e.name, e.v))
HSetAttr(e) == HStep(e, [H EXCEPT !.heap[e.i].vals[e.arg] = e.v])
HSetSlot(e) == HStep(e, [H EXCEPT !.heap[e.i].cell = H.ucell[e.u]])
HMarshal(e) ==
    LET f == ViewOf(H, H.heap[e.i]) spec == Marshal(legacy, f, e.ch) okc == e.out.r = "ok" IN
    /\ Chk(e, "C16", "result_depends_only_on_arguments_and_switch", (spec.ok => (okc /\ e.out.b = spec.b)) /\ (~spec.ok => ~okc))
    /\ Chk(e, "C12", "same_bytes_as_the_pure_function", spec.ok => (okc /\ e.out.b = spec.b))
    /\ HStep(e, H)
HUnmarshal(e) ==
    LET r == Unmarshal(e.b) o == e.out IN
    /\ Chk(e, "C16", "result_depends_only_on_the_bytes",
           IF r.k = "frame" THEN o.r = "ok" /\ o.n = r.n /\ o.ch = r.ch /\ SameDecoded(r.f, o.f)
           ELSE IF r.k \in {"incomplete", "malformed"} THEN o.r = "exc" ELSE TRUE)
    /\ IF r.k # "frame" /\ o.r = "ok" THEN st' = [st EXCEPT !.hvoid = TRUE]
       ELSE HStep(e, IF r.k = "frame" /\ o.r = "ok" THEN HDecoded(H, r.f) ELSE H)
HToggle(e) == st' = [st EXCEPT !.legacy = ToggleArg(e.arg)]

Toggle(e) == st' = [st EXCEPT !.legacy = ToggleArg(e.arg)]
SetTZ(e)  == st' = [st EXCEPT !.tz = e.z]
\* the LIBRARY raised out of a call that the property's driver makes, unguarded, on every run (on the unchanged tree
\* none does: every seed explored).  The rest of the shard's workload was not executed; what was recorded before is
\* judged as usual.
DriverAbort(e) == /\ \A i \in 1..Len(e.p) : Chk(e, e.p[i], "library_refused_a_call_made_on_every_run", FALSE)
                  /\ UNCHANGED st

Step == /\ l <= Len(Events)
        /\ l' = l + 1
        /\ LET e == Events[l] IN
           CASE e.a = "EncodeValue" -> EncodeValue(e)
             [] e.a = "RoundTrip"   -> RoundTrip(e)
             [] e.a = "EncodeFixed" -> EncodeFixed(e)
             [] e.a = "MarshalPart" -> MarshalPart(e)
             [] e.a = "EncodeArg"   -> EncodeArg(e)
             [] e.a = "MappingKeys" -> MappingKeys(e)
             [] e.a = "CatalogEntry" -> CatalogEntry(e)
             [] e.a = "PropertiesEntry" -> PropertiesEntry(e)
             [] e.a = "ClassEntry"  -> ClassEntry(e)
             [] e.a = "ReplyKeys"   -> ReplyKeys(e)
             [] e.a = "UndefinedCodes" -> UndefinedCodes(e)
             [] e.a = "ReplyCode"   -> ReplyCode(e)
             [] e.a = "Constants"   -> ConstantsEv(e)
             [] e.a = "UnmarshalingExc" -> UnmarshalingExc(e)
             [] e.a = "Unmarshal"   -> UnmarshalEv(e)
             [] e.a = "CutSet"      -> CutSet(e)
             [] e.a = "FrameParts"  -> FramePartsEv(e)
             [] e.a = "Peek"        -> Peek(e)
             [] e.a = "DecodeValue" -> DecodeValueEv(e)
             [] e.a = "Construct"   -> Construct(e)
             [] e.a = "SetThenMarshal" -> SetThenMarshal(e)
             [] e.a = "CharBlock"   -> CharBlock(e)
             [] e.a = "Observe"     -> Observe(e)
             [] e.a = "SameBytes"   -> SameBytes(e)
             [] e.a = "SameResult"  -> SameResult(e)
             [] e.a = "CReset"      -> CReset(e)
             [] e.a = "CPublish"    -> CPublish(e)
             [] e.a = "CFrame"      -> CFrame(e)
             [] e.a = "CQuiesce"    -> CQuiesce(e)
             [] e.a = "RpcReset"    -> RpcReset(e)
             [] e.a = "RpcSend"     -> RpcSend(e)
             [] e.a = "RpcRecv"     -> RpcRecv(e)
             [] e.a = "SchedulerStats" -> UNCHANGED st
             [] e.a = "HReset"      -> HReset(e)
             [] e.a = "HNewDict" -> HGuard(e, HNewDict(e))
             [] e.a = "HNewProps" -> HGuard(e, HNewProps(e))
             [] e.a = "HConstruct" -> HGuard(e, HConstruct(e))
             [] e.a = "HMutate" -> HGuard(e, HMutate(e))
             [] e.a = "HSetAttr" -> HGuard(e, HSetAttr(e))
             [] e.a = "HSetSlot" -> HGuard(e, HSetSlot(e))
             [] e.a = "HMarshal" -> HGuard(e, HMarshal(e))
             [] e.a = "HUnmarshal" -> HGuard(e, HUnmarshal(e))
             [] e.a = "StreamReset" -> StreamReset(e)
             [] e.a = "Send"        -> SendEv(e)
             [] e.a = "Deliver"     -> DeliverEv(e)
             [] e.a = "TryDecode"   -> TryDecodeEv(e)
             [] e.a = "PeekRead"    -> PeekReadEv(e)
             [] e.a = "Quiesce"     -> Quiesce(e)
             [] e.a = "Toggle"      -> Toggle(e)
             [] e.a = "SetTZ"       -> SetTZ(e)
             [] e.a = "DriverAbort" -> DriverAbort(e)
             [] e.a = "BuildFrame"  -> BuildFrame(e)
             [] e.a = "ConnReset"   -> ConnReset(e)
             [] e.a = "ConnFrame"   -> ConnFrame(e)
             [] e.a = "ConnQuiesce" -> ConnQuiesce(e)

Init == /\ l = 1
        /\ st = [legacy |-> FALSE, tz |-> "UTC", void |-> FALSE, hvoid |-> FALSE, wire |-> <<>>, buf |-> <<>>, sent |-> <<>>, got |-> 0, used |-> 0,
                  heap |-> HeapInit, rpc |-> [c \in 0..7 |-> ""], conn |-> ConnInit,
                  asm |-> [c \in 0..7 |-> Idle], cdel |-> [c \in 0..7 |-> <<>>], cpub |-> [c \in 0..7 |-> <<>>]]
Spec == Init /\ [][Step]_vars
TraceConsumed == TLCGet("stats").diameter - 1 = Len(Events)
=============================================================================
