---- MODULE Dbg ----
EXTENDS Frames, Json, IOUtils, TLC, TLCExt
E == JsonDeserialize(IOEnv.TRACE_FILE)
S1 == Marshal(FALSE, E.f, E.ch)
S2 == Marshal(TRUE, E.f, E.ch)
Diff(a, b) == { i \in 1..MinI(Len(a), Len(b)) : a[i] # b[i] }
ASSUME PrintT(<<"ok", S1.ok, S2.ok, Len(S1.b), Len(E.b), S1.b = E.b, S2.b = E.b>>)
ASSUME PrintT(<<"diff", Diff(S1.b, E.b)>>)
ASSUME PrintT(<<"around", SubSeq(S1.b, 150, 200), SubSeq(E.b, 150, 200)>>)
====
