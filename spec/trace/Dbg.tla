---- MODULE Dbg ----
EXTENDS FieldValue, Json, IOUtils, TLC, TLCExt
Events == ndJsonDeserialize(IOEnv.TRACE_FILE)
ASSUME PrintT(Events[1])
ASSUME PrintT(EncVal(FALSE, Events[1].in))
ASSUME PrintT(Events[1].out.b = EncVal(FALSE, Events[1].in).b)
ASSUME PrintT(DecVal(Events[1].out.b))
====
