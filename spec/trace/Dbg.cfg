
