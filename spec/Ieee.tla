------------------------------- MODULE Ieee -------------------------------
(***************************************************************************)
(* IEEE-754 binary64 <-> binary32 on byte strings (big-endian).            *)
(* Narrow(d) is what struct.pack('>f', x) does: round to nearest, ties to  *)
(* even, subnormals, and an ERROR (OverflowError in Python) when a finite  *)
(* double rounds to infinity.  NaN payloads are left unspecified.          *)
(* Widen(f) is the exact binary64 value of a binary32.                     *)
(* Mirrors: encode.floating_point, decode.floating_point, decode.double.   *)
(***************************************************************************)
EXTENDS Bytes

\* ---- binary64 fields from 8 bytes ----
DSign(d) == d[1] \div 128
DExp(d)  == (d[1] % 128) * 16 + (d[2] \div 16)
DFracIsZero(d) == (d[2] % 16) = 0 /\ \A i \in 3..8 : d[i] = 0
\* top 23 bits of the 52-bit fraction, and the low 29 bits
DFracHi(d) == (d[2] % 16) * 524288 + d[3] * 2048 + d[4] * 8 + (d[5] \div 32)
DFracLo(d) == (d[5] % 32) * 16777216 + d[6] * 65536 + d[7] * 256 + d[8]

IsNaN64(d) == DExp(d) = 2047 /\ ~DFracIsZero(d)
IsInf64(d) == DExp(d) = 2047 /\ DFracIsZero(d)

FExp(f)  == (f[1] % 128) * 2 + (f[2] \div 128)
FFrac(f) == (f[2] % 128) * 65536 + f[3] * 256 + f[4]
IsNaN32(f) == FExp(f) = 255 /\ FFrac(f) # 0

F32Bytes(sign, low31) == LET u == U32(low31) IN << sign * 128 + u[1], u[2], u[3], u[4] >>

P2(k) == 2 ^ k

\* round(hi * 2^29 + lo) / 2^(29 + k)) half-even, hi < 2^24, lo < 2^29, k >= 0
RoundShift(hi, lo, k) ==
    IF k = 0 THEN
        hi + (IF lo > P2(28) \/ (lo = P2(28) /\ hi % 2 = 1) THEN 1 ELSE 0)
    ELSE IF k >= 26 THEN 0
    ELSE LET q   == hi \div P2(k)
             rem == hi % P2(k)
             half == P2(k - 1)
             up  == rem > half \/ (rem = half /\ lo > 0) \/ (rem = half /\ lo = 0 /\ q % 2 = 1)
         IN q + (IF up THEN 1 ELSE 0)

\* [ok |-> TRUE, b |-> 4 bytes, nan |-> BOOLEAN] or [ok |-> FALSE] (overflow)
Narrow(d) ==
    LET s == DSign(d) e == DExp(d) IN
    IF e = 2047 THEN
        IF DFracIsZero(d) THEN [ok |-> TRUE, nan |-> FALSE, b |-> F32Bytes(s, 255 * 8388608)]
        \* NaN: sign kept, payload truncated to its top 23 bits, quiet bit set (what the hardware
        \* conversion behind struct.pack does; checked against it on 100 000 NaN patterns)
        ELSE [ok |-> TRUE, nan |-> TRUE,
              b |-> F32Bytes(s, 255 * 8388608 + (IF DFracHi(d) >= 4194304 THEN DFracHi(d) ELSE DFracHi(d) + 4194304))]
    ELSE IF e = 0 THEN [ok |-> TRUE, nan |-> FALSE, b |-> F32Bytes(s, 0)]   \* +-0 and double subnormals
    ELSE LET E  == e - 1023
             hi == 8388608 + DFracHi(d)
             lo == DFracLo(d)
         IN IF E > 127 THEN [ok |-> FALSE]
            ELSE IF E >= -126 THEN
                LET low31 == (E + 126) * 8388608 + RoundShift(hi, lo, 0) IN
                IF low31 >= 255 * 8388608 THEN [ok |-> FALSE]
                ELSE [ok |-> TRUE, nan |-> FALSE, b |-> F32Bytes(s, low31)]
            ELSE [ok |-> TRUE, nan |-> FALSE, b |-> F32Bytes(s, RoundShift(hi, lo, -126 - E))]

\* position of the highest set bit of n (0-based), n >= 1
RECURSIVE TopBit(_)
TopBit(n) == IF n <= 1 THEN 0 ELSE 1 + TopBit(n \div 2)

\* binary64 bytes from sign, 11-bit exponent field and a 52-bit fraction given as
\* (hi23, lo29): fraction = hi23 * 2^29 + lo29
F64Bytes(sign, e, hi23, lo29) ==
    << sign * 128 + (e \div 16),
       (e % 16) * 16 + (hi23 \div 524288),
       (hi23 \div 2048) % 256,
       (hi23 \div 8) % 256,
       (hi23 % 8) * 32 + (lo29 \div 16777216),
       (lo29 \div 65536) % 256,
       (lo29 \div 256) % 256,
       lo29 % 256 >>

Widen(f) ==
    LET s == f[1] \div 128 e == FExp(f) fr == FFrac(f) IN
    IF e = 255 THEN (IF fr = 0 THEN F64Bytes(s, 2047, 0, 0) ELSE F64Bytes(s, 2047, 4194304 + (fr % 4194304), 0))
    ELSE IF e = 0 THEN
        IF fr = 0 THEN F64Bytes(s, 0, 0, 0)
        ELSE LET p == TopBit(fr) IN     \* value = fr * 2^-149 = 1.x * 2^(p-149)
             F64Bytes(s, p - 149 + 1023, (fr - P2(p)) * P2(23 - p), 0)
    ELSE F64Bytes(s, e - 127 + 1023, fr, 0)

\* equality of doubles as Python values read back: any NaN matches any NaN
SameF64(a, b) == IF IsNaN64(a) \/ IsNaN64(b) THEN IsNaN64(a) /\ IsNaN64(b) ELSE a = b
=============================================================================
