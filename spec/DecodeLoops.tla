----------------------------- MODULE DecodeLoops -----------------------------
(***************************************************************************)
(* The decoder's loops as step machines (property C08): the field-array /  *)
(* field-table element loop and the property-flag-word loop of the content *)
(* header.  One Iter step = one pass through the loop body of the code.    *)
(* The design obeys Progress (every iteration consumes input or stops) and *)
(* the step bound SpecBound(n) = 2n + 40; the CODE is held to the 8x       *)
(* looser ImplBound(n) = 16n + 256 by the trace checks.                    *)
(* Two named deviations reproduce loop shapes that once were in the code   *)
(* (both repaired by fix: commits): with either switched on TLC finds the  *)
(* non-progress cycle -- the regression test of this model.                *)
(*   Dev_EmptyValueConsumesZero   an element decoder returns (0, None) on  *)
(*                                empty input and the array loop goes on   *)
(*   Dev_FlagLoopDoesNotAdvance   the flag-word loop re-reads word 0       *)
(***************************************************************************)
EXTENDS Naturals, Sequences, FiniteSets, TLC

CONSTANTS MaxLen, Alphabet, Dev_EmptyValueConsumesZero, Dev_FlagLoopDoesNotAdvance

VARIABLES kind,     \* "array" | "flags"
          input,    \* the bytes after the 4-byte length (array) / the flag words as 0..3 each: bit0 = continuation
          declared, \* declared length of the array (may exceed the input: a corrupted length field)
          offset, steps, out, pc
dvars == << kind, input, declared, offset, steps, out, pc >>

Inputs == UNION { [1..n -> Alphabet] : n \in 0..MaxLen }

\* element sizes by tag: 86 'V' = 1 byte, 116 't' = 2 bytes, 73 'I' = 5 bytes; anything else is refused
Size(tag) == CASE tag = 86 -> 1 [] tag = 116 -> 2 [] tag = 73 -> 5 [] OTHER -> 0

DInit == /\ kind \in {"array", "flags"}
         /\ input \in Inputs
         /\ declared \in 0..(MaxLen + 2)
         /\ offset = 0 /\ steps = 0 /\ out = 0 /\ pc = "loop"

ArrayIter ==
    /\ kind = "array" /\ pc = "loop"
    /\ IF offset >= declared THEN pc' = "done" /\ UNCHANGED << offset, out, steps >>
       ELSE /\ steps' = steps + 1
            /\ IF offset >= Len(input)                       \* ran out of data before the declared length
               THEN IF Dev_EmptyValueConsumesZero
                    THEN out' = out + 1 /\ UNCHANGED << offset, pc >>         \* (0, None): appended, nothing consumed
                    ELSE pc' = "error" /\ UNCHANGED << offset, out >>
               ELSE LET sz == Size(input[offset + 1]) IN
                    IF sz = 0 \/ offset + sz > Len(input) THEN pc' = "error" /\ UNCHANGED << offset, out >>
                    ELSE offset' = offset + sz /\ out' = out + 1 /\ UNCHANGED pc
    /\ UNCHANGED << kind, input, declared >>

FlagIter ==
    /\ kind = "flags" /\ pc = "loop"
    /\ steps' = steps + 1
    /\ LET at == IF Dev_FlagLoopDoesNotAdvance THEN 0 ELSE offset IN
       IF at >= Len(input) THEN pc' = "error" /\ UNCHANGED << offset, out >>
       ELSE /\ offset' = offset + 1 /\ out' = out + 1
            /\ pc' = IF input[at + 1] % 2 = 1 THEN "loop" ELSE "done"
    /\ UNCHANGED << kind, input, declared >>

IterStep == ArrayIter \/ FlagIter
DNext == IterStep
DSpec == DInit /\ [][DNext]_dvars /\ WF_dvars(DNext)

\* ---- properties ----
SpecBound(n) == 2 * n + 40
StepBound == steps <= SpecBound(Len(input))
\* the result never grows without consuming input
OutputBounded == out <= Len(input) + 1
\* every iteration that stays in the loop has consumed input
Progress == [][(pc = "loop" /\ pc' = "loop") => offset' > offset]_dvars
Terminates == <>(pc \in {"done", "error"})
=============================================================================
