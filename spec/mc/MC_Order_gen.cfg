SPECIFICATION Spec
INVARIANT EmitOrder
CONSTRAINT GenBound
CHECK_DEADLOCK FALSE
