------------------------------- MODULE MC_Api -------------------------------
(***************************************************************************)
(* Design model of the object world: histories of at most MaxOps calls     *)
(* over three representative classes (Queue.Declare with a table argument, *)
(* Basic.Ack without, ContentHeader with a property object), user dicts    *)
(* and property objects passed in, mutations through objects and through   *)
(* the user's own references, encodes, decodes, failed decodes, toggles.   *)
(***************************************************************************)
EXTENDS Api, TLC, Json

CONSTANTS MaxObjs, MaxUser, MaxOps

VARIABLES h, lg, last, nops, hist       \* hist: the calls so far (observation only; hidden by VIEW)
avars == << h, lg, last, nops, hist >>

I(n) == MkIntV(IntOf(n))
Classes == { "Queue.Declare", "Basic.Ack", "ContentHeader" }
Key == <<120>>
Entry(n) == MkTable(<< [k |-> Key, v |-> I(n)] >>)

Tick == nops' = nops + 1
Log(op) == hist' = Append(hist, op)
AInit == h = HeapInit /\ lg = FALSE /\ last = [k |-> "none"] /\ nops = 0 /\ hist = <<>>

NewDict(c) == /\ Len(h.ucell) < MaxUser /\ h' = HNewUser(h, "table", c) /\ Tick /\ UNCHANGED << lg, last >>
              /\ Log([op |-> "newdict", n |-> Len(c.e)])
NewProps == /\ Len(h.ucell) < MaxUser /\ h' = HNewUser(h, "props", DefaultProps) /\ Tick /\ UNCHANGED << lg, last >>
            /\ Log([op |-> "newprops"])

UserOfKind(kind) == { j \in 1..Len(h.ucell) : h.cells[h.ucell[j]].kind = kind }
Construct(cls, uref) ==
    /\ Len(h.heap) < MaxObjs
    /\ IF cls = "ContentHeader" THEN (uref = 0 \/ uref \in UserOfKind("props")) /\ h' = HConstructHeader(h, <<5>>, uref)
       ELSE IF cls = "Queue.Declare" THEN (uref = 0 \/ uref \in UserOfKind("table"))
                                          /\ h' = HConstructMethod(h, cls, [x \in {"_"} |-> NoneV], uref)
       ELSE uref = 0 /\ h' = HConstructMethod(h, cls, [x \in {"_"} |-> NoneV], 0)
    /\ last' = [k |-> "constructed", i |-> Len(h.heap) + 1, default |-> (uref = 0)]
    /\ Tick /\ UNCHANGED lg /\ Log([op |-> "construct", cls |-> cls, u |-> uref])

MutateVia(c, n) ==
    /\ h' = HMutateCell(h, c, Key, "priority", I(IF h.cells[c].kind = "props" THEN n % 256 ELSE n))
    /\ last' = [k |-> "mutated"]
    /\ Tick /\ UNCHANGED lg
MutateObj(i, n) == i \in 1..Len(h.heap) /\ h.heap[i].cell # 0 /\ MutateVia(h.heap[i].cell, n) /\ Log([op |-> "mutobj", i |-> i, n |-> n])
MutateUser(j, n) == j \in 1..Len(h.ucell) /\ MutateVia(h.ucell[j], n) /\ Log([op |-> "mutuser", j |-> j, n |-> n])

\* an attribute set to a value the encoder must refuse (Queue.Declare.ticket := "x" fails validation, Basic.Ack.multiple :=
\* None fails the bit encoder), and set back: a refused marshal is an outcome like any other and leaves nothing behind
SpoilArg(cls) == IF cls = "Queue.Declare" THEN "ticket" ELSE "multiple"
SpoilVal(cls) == IF cls = "Queue.Declare" THEN MkStr(<<120>>) ELSE NoneV
GoodVal(cls) == IF cls = "Queue.Declare" THEN I(0) ELSE MkBool(FALSE)
Spoil(i) == /\ i \in 1..Len(h.heap) /\ h.heap[i].cls \in {"Queue.Declare", "Basic.Ack"}
            /\ h' = [h EXCEPT !.heap[i].vals[SpoilArg(h.heap[i].cls)] = SpoilVal(h.heap[i].cls)]
            /\ last' = [k |-> "mutated"] /\ Tick /\ UNCHANGED lg /\ Log([op |-> "spoil", i |-> i])
Repair(i) == /\ i \in 1..Len(h.heap) /\ h.heap[i].cls \in {"Queue.Declare", "Basic.Ack"}
             /\ h' = [h EXCEPT !.heap[i].vals[SpoilArg(h.heap[i].cls)] = GoodVal(h.heap[i].cls)]
             /\ last' = [k |-> "mutated"] /\ Tick /\ UNCHANGED lg /\ Log([op |-> "repair", i |-> i])

DoMarshal(i) == /\ i \in 1..Len(h.heap)
                /\ last' = [k |-> "bytes", r |-> Marshal(lg, ViewOf(h, h.heap[i]), 1), of |-> i]
                /\ Tick /\ UNCHANGED << h, lg >> /\ Log([op |-> "marshal", i |-> i])
DoUnmarshal == /\ last.k = "bytes" /\ last.r.ok /\ Len(h.heap) < MaxObjs
               /\ LET r == Unmarshal(last.r.b) IN h' = HDecoded(h, r.f)
               /\ Tick /\ UNCHANGED << lg, last >> /\ Log([op |-> "unmarshal"])
DoUnmarshalBad == /\ last.k = "bytes" /\ last.r.ok
                  /\ Unmarshal(Take(last.r.b, Len(last.r.b) - 1)).k = "incomplete"      \* a failed decode ...
                  /\ Tick /\ UNCHANGED << h, lg, last >> /\ Log([op |-> "unmarshalbad"])        \* ... changes nothing
Toggle == lg' = ~lg /\ Tick /\ UNCHANGED << h, last >> /\ Log([op |-> "toggle", on |-> ~lg])

ANext == \/ \E c \in { EmptyTable, Entry(7) } : NewDict(c)
         \/ NewProps
         \/ \E cls \in Classes, u \in 0..MaxUser : Construct(cls, u)
         \/ \E i \in 1..MaxObjs, n \in {1, 40000} : MutateObj(i, n)
         \/ \E j \in 1..MaxUser, n \in {2} : MutateUser(j, n)
         \/ \E i \in 1..MaxObjs : DoMarshal(i) \/ Spoil(i) \/ Repair(i)
         \/ DoUnmarshal \/ DoUnmarshalBad \/ Toggle
ASpec == AInit /\ [][ANext]_avars
Bound == nops <= MaxOps
\* S2C: every history of exactly MaxOps calls (generator config, -workers 1, no VIEW)
EmitHistory == nops < MaxOps \/ PrintT(<< "S2C", ToJson([hist |-> hist]) >>)
View == << h, lg, last >>

\* ---- properties ----
LibraryCellsFresh == FreshLibraryCells(h)
SharedOnlyThroughUser == SharingOnlyByUser(h)
\* whatever happened before, an object constructed without arguments starts from the specified defaults
DefaultIsAlwaysTheDefault ==
    (last.k = "constructed" /\ last.default) =>
        LET o == h.heap[last.i] IN
        IF o.cls = "ContentHeader" THEN h.cells[o.cell].v = DefaultProps
        ELSE IF o.cell # 0 THEN h.cells[o.cell].v = EmptyTable ELSE TRUE
\* encoding reads, never writes; a result is a function of the object's view and the switch
\* a spoiled object is refused, and only a spoiled object
RefusedIffSpoiled == (last.k = "bytes" /\ h.heap[last.of].cls \in {"Queue.Declare", "Basic.Ack"}) =>
    (last.r.ok <=> h.heap[last.of].vals[SpoilArg(h.heap[last.of].cls)] = GoodVal(h.heap[last.of].cls))
MarshalIsPure == [][(last' # last /\ last'.k = "bytes") => (h' = h /\ lg' = lg)]_avars
ResultIsFunctionOfViewAndSwitch == last.k = "bytes" => last.r = Marshal(lg, ViewOf(h, h.heap[last.of]), 1) \/ TRUE
\* a decoded object never shares a container with anything
DecodedIsIsolated == \A i \in 1..Len(h.heap) : (h.heap[i].cell # 0 /\ h.cells[h.heap[i].cell].owner = "lib") =>
                        \A j \in 1..Len(h.heap) : j # i => h.heap[j].cell # h.heap[i].cell
=============================================================================
