CONSTANTS
  MaxObjs = 3
  MaxUser = 1
  MaxOps = 4
SPECIFICATION ASpec
CONSTRAINT Bound
INVARIANT EmitHistory
CHECK_DEADLOCK FALSE
