SPECIFICATION Spec
INVARIANT ConstructedIsValid
INVARIANT OnlyValidIsEmitted
PROPERTY MarshalRefusesExactlyTheInvalid
CHECK_DEADLOCK FALSE
