CONSTANTS
  MaxLen = 14
  UseChans = {1, 2}
  Emit = FALSE
SPECIFICATION MSpec
VIEW View
INVARIANT TypeOK
INVARIANT NegotiatedWithinOffer
INVARIANT ChannelsNeedAnOpenConnection
INVARIANT ChannelZeroIsNeverAChannel
INVARIANT ChannelsWithinChannelMax
INVARIANT NoAssemblyError
INVARIANT WorkOnlyOnOpenChannels
INVARIANT PendingIsARequest
INVARIANT ClosedIsTerminal
INVARIANT CloserIsSilent
INVARIANT CanAlwaysClose
INVARIANT CanAlwaysAnswer
INVARIANT OnlyNegotiationBeforeOpen
PROPERTY FramesFit
CHECK_DEADLOCK FALSE
