CONSTANTS
  Pool <- PoolDef
  MaxSent = 2
  Mode = "greedy"
SPECIFICATION SSpec
INVARIANT Conservation
INVARIANT FifoPrefix
INVARIANT NoFault
INVARIANT NoEarlyFrame
INVARIANT ConsumedWithinBuffer
INVARIANT Quiescent
PROPERTY AllReceived
CHECK_DEADLOCK FALSE
