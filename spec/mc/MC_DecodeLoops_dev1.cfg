CONSTANTS
  MaxLen = 3
  Alphabet <- Alpha
  Dev_EmptyValueConsumesZero = TRUE
  Dev_FlagLoopDoesNotAdvance = FALSE
SPECIFICATION DSpec
PROPERTY Progress
CONSTRAINT Bound
CHECK_DEADLOCK FALSE
