SPECIFICATION Spec
INVARIANT EmitFrame
CHECK_DEADLOCK FALSE
