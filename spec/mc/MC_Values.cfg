CONSTANTS
  Depth2 = FALSE
SPECIFICATION Spec
INVARIANT DomainAccepted
INVARIANT RoundTrip
INVARIANT TypePreserved
INVARIANT SortedOnWire
INVARIANT OrderIndependent
INVARIANT LegacyOnlySigned
CHECK_DEADLOCK FALSE
