CONSTANTS
  K = 2
  StepsPerCall = 2
  Dev_SharedScratch = TRUE
SPECIFICATION TSpec
INVARIANT PureResults
CHECK_DEADLOCK FALSE
