CONSTANTS
  Lo <- LoQuick
  Hi = 300
  MaxLen = 0
SPECIFICATION Spec
VIEW View
INVARIANT SmallestFit
INVARIANT LegacyOnlySigned
INVARIANT SameAccepted
INVARIANT RoundTrips
PROPERTY ToggleDetermines
PROPERTY EncodeIsPure
CHECK_DEADLOCK FALSE
