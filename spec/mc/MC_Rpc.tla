---- MODULE MC_Rpc ----
EXTENDS Rpc
====
