SPECIFICATION Spec
INVARIANT WellFormed
INVARIANT IndexUnique
INVARIANT RepliesInSameClass
INVARIANT RepliesAreTerminal
INVARIANT DefaultsValid
INVARIANT DefaultsEncodable
INVARIANT AtMostEightBitsInARow
INVARIANT ReplyCodesPartition
CHECK_DEADLOCK FALSE
