CONSTANTS
  Pool <- PoolDef
  MaxSent = 2
  Mode = "greedy"
SPECIFICATION GenSpec
CHECK_DEADLOCK FALSE
