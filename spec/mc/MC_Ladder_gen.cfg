CONSTANTS
  Lo = 0
  Hi <- MinusOne
  MaxLen = 3
SPECIFICATION Spec
INVARIANT EmitHistory
INVARIANT BadIsRefused
CONSTRAINT GenBound
CHECK_DEADLOCK FALSE
