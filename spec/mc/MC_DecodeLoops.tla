---- MODULE MC_DecodeLoops ----
EXTENDS DecodeLoops
Alpha == {86, 116, 73, 0, 1}
Bound == steps <= 200       \* keeps the deviating (non-terminating) configs finite
====
