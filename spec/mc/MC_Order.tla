----------------------------- MODULE MC_Order -----------------------------
(* C12 on the design: a table is BUILT entry by entry in any order (AddEntry), nested tables too; whatever
   the insertion order, the encoding is the same and keys are ascending on the wire at every level.
   Every reachable insertion order is also emitted (S2C) and built as a real dict in exactly that order. *)
EXTENDS FieldValue, TLC, Json

VARIABLE tbl           \* sequence of [k, v] in INSERTION order
I(n) == MkIntV(IntOf(n))
OKeys == { <<>>, <<97>>, <<97, 98>>, <<98>>, <<233>>, <<66>> }      \* "", "a", "ab" (prefix pair), "b", "é", "B"
Inner1 == MkTable(<< [k |-> <<122>>, v |-> I(1)], [k |-> <<97>>, v |-> I(2)] >>)
Inner2 == MkTable(<< [k |-> <<97>>, v |-> I(2)], [k |-> <<122>>, v |-> I(1)] >>)       \* same content, other order
OVals == { I(40000), Inner1, Inner2, MkArray(<< Inner1, I(-1) >>) }
MaxEntries == 4

Init == tbl = <<>>
AddEntry(k, v) == /\ Len(tbl) < MaxEntries /\ \A i \in 1..Len(tbl) : tbl[i].k # k
                  /\ tbl' = Append(tbl, [k |-> k, v |-> v])
Next == \E k \in OKeys, v \in OVals : AddEntry(k, v)
Spec == Init /\ [][Next]_tbl

Enc(es) == EncTable(FALSE, es)
\* canonical content: inner tables compared as maps
Content(es) == { << es[i].k, Norm(es[i].v) >> : i \in 1..Len(es) }
Sorted(es) == SortSeq(es, KeyLess)
OrderIndependent == Enc(tbl) = Enc(Sorted(tbl))
InnerOrderIndependent == Enc(tbl) = Enc([i \in 1..Len(tbl) |-> [k |-> tbl[i].k, v |-> IF tbl[i].v = Inner2 THEN Inner1 ELSE tbl[i].v]])
SortedOnWire == LET d == DecTable(Enc(tbl).b) IN d.ok /\ d.n = Len(Enc(tbl).b) /\ KeysAscending(d.v)
              /\ SameValue(d.v, MkTable(tbl))
GenBound == Len(tbl) <= 3
EmitOrder == Len(tbl) < 2 \/ PrintT(<< "S2C", ToJson([tbl |-> MkTable(tbl)]) >>)
=============================================================================
