CONSTANTS
  MaxLen = 40
  UseChans = {1, 2, 3}
  Emit = TRUE
  CloseAfter = 24
  FmSet = {0, 4096, 4097, 8192, 131072}
  CmSet = {0, 3, 2047}
  HdrSet = {0, 1, 5, 4088, 4090, 9000, 131064, 200000}
  BodySet = {1, 2, 5, 816, 4080, 4088, 4089, 4090, 8184, 60936, 68936, 131064, 200000}
  Work = {"Queue.Declare", "Queue.DeclareOk", "Queue.Bind", "Queue.BindOk", "Exchange.Declare", "Exchange.DeclareOk", "Basic.Publish", "Basic.Deliver", "Basic.Return", "Basic.Get", "Basic.GetOk", "Basic.GetEmpty", "Basic.Ack", "Basic.Nack", "Basic.Consume", "Basic.ConsumeOk", "Basic.Cancel", "Basic.CancelOk", "Basic.Qos", "Basic.QosOk", "Confirm.Select", "Confirm.SelectOk", "Tx.Select", "Tx.SelectOk", "Tx.Commit", "Tx.CommitOk", "Channel.Flow", "Channel.FlowOk"}
SPECIFICATION MSpec
INVARIANT EmitConversation
CHECK_DEADLOCK FALSE
