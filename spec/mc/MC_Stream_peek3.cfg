CONSTANTS
  Pool <- PoolDef
  MaxSent = 3
  Mode = "peek"
SPECIFICATION SSpec
INVARIANT Conservation
INVARIANT FifoPrefix
INVARIANT NoFault
INVARIANT NoEarlyFrame
INVARIANT ConsumedWithinBuffer
INVARIANT Quiescent
CHECK_DEADLOCK FALSE
