------------------------------ MODULE MC_Conn ------------------------------
(* Design model of the connection life cycle: every sequence of frames that Conn.Legal admits, over a small universe of
   frames (all of class Connection and Channel, a request/reply pair, the content-carrying methods, headers and bodies of
   a few sizes, Tune offers and answers around frame-min-size), is explored; the invariants say that what Legal admits is
   a sane protocol.  The generator configuration prints conversations for the drivers (S2C). *)
EXTENDS Conn, Json

CONSTANTS MaxLen, UseChans, Emit, FmSet, CmSet, HdrSet, BodySet, Work, CloseAfter

VARIABLES cs, hist, seen      \* seen: which landmark frames have travelled (coverage; part of the VIEW)
cvars2 == << cs, hist, seen >>

WireOf(kind, size) == CASE kind = "body" -> size + 8 [] kind = "header" -> 22 [] kind = "proto" -> 8 [] kind = "heartbeat" -> 8 [] OTHER -> 40
Ev(d, c, kind, name, size, fm, cm) == [dir |-> d, ch |-> c, kind |-> kind, name |-> name, size |-> size, wire |-> WireOf(kind, size), fm |-> fm, cm |-> cm]

ConnNames == { n \in MethodNames : ClassOf(n) = 10 }
ChanNames == { n \in MethodNames : ClassOf(n) = 20 }
WorkNames == Work
Universe ==
    { Ev(d, 0, "proto", "", 0, 0, 0) : d \in Dirs } \cup { Ev(d, c, "heartbeat", "", 0, 0, 0) : d \in Dirs, c \in {0} }
    \cup { Ev(d, 0, "method", n, 0, 0, 0) : d \in Dirs, n \in ConnNames \ {"Connection.Tune", "Connection.TuneOk"} }
    \cup { Ev(d, 0, "method", n, 0, fm, cm) : d \in Dirs, n \in {"Connection.Tune", "Connection.TuneOk"}, fm \in FmSet, cm \in CmSet }
    \cup { Ev(d, c, "method", n, 0, 0, 0) : d \in Dirs, c \in UseChans, n \in ChanNames \cup WorkNames \cup {"Connection.Close"} }
    \cup { Ev(d, c, "header", "", sz, 0, 0) : d \in Dirs, c \in UseChans \cup {0}, sz \in HdrSet }
    \cup { Ev(d, c, "body", "", sz, 0, 0) : d \in Dirs, c \in UseChans \cup {0}, sz \in BodySet }

Landmarks == {"Queue.DeclareOk", "Channel.CloseOk", "Basic.Deliver", "Basic.GetEmpty", "Connection.Secure"}
Mark(e) == IF e.name \in Landmarks THEN {e.name}
           ELSE IF e.kind = "body" /\ cs.asm[e.dir][e.ch].left > e.size THEN {"split-body"} ELSE {}
MInit == cs = ConnInit /\ hist = <<>> /\ seen = {}
Do(e) == ConnLegal(cs, e) /\ cs' = ConnStep(cs, e) /\ hist' = Append(hist, e) /\ seen' = seen \cup Mark(e)
\* (CloseAfter > 0 only in the generator configuration: conversations are not shut down before they did some work)
MNext == Len(hist) < MaxLen /\ \E e \in Universe : (e.name = "Connection.Close" => Len(hist) >= CloseAfter) /\ Do(e)
MSpec == MInit /\ [][MNext]_cvars2
\* liveness: a shutdown that was started completes (weak fairness of the peer's CloseOk), unless the bound cut the run
CloseOkStep == Len(hist) < MaxLen /\ \E d \in Dirs : Do(Ev(d, 0, "method", "Connection.CloseOk", 0, 0, 0))
MSpecFair == MSpec /\ WF_cvars2(CloseOkStep)
ShutdownCompletes == (cs.phase = "closing") ~> (cs.phase = "closed" \/ Len(hist) = MaxLen)

View == << cs, seen >>

\* ---- what Legal admits is a sane protocol ----
Phases == {"init", "hdr", "start", "startok", "secure", "tune", "tuneok", "opening", "open", "closing", "closed"}
TypeOK == /\ cs.phase \in Phases /\ cs.tuned \in BOOLEAN /\ (cs.phase \in {"tuneok", "opening", "open"} => cs.tuned)
          /\ \A c \in ConnChans : cs.chan[c] \in {"closed", "opening", "open", "closing"}
NegotiatedWithinOffer == cs.tuned => /\ Within(cs.ofm, cs.fmax) /\ Within(cs.ocm, cs.cmax)
                                                    /\ (cs.fmax = 0 \/ cs.fmax >= FrameMin)
ChannelsNeedAnOpenConnection == \A c \in ConnChans : cs.chan[c] # "closed" => cs.phase \in Live
ChannelZeroIsNeverAChannel == cs.chan[0] = "closed" /\ cs.asm["c"][0] = Idle /\ cs.asm["s"][0] = Idle
ChannelsWithinChannelMax == \A c \in ConnChans : (cs.chan[c] # "closed" /\ cs.cmax # 0) => c <= cs.cmax
NoAssemblyError == \A d \in Dirs, c \in ConnChans : cs.asm[d][c].mode \notin {"error", "done"}
WorkOnlyOnOpenChannels == \A d \in Dirs, c \in ConnChans \ {0} :
                             (cs.pend[d][c] # "" \/ cs.asm[d][c] # Idle) => cs.chan[c] \in {"open", "closing"}
PendingIsARequest == \A d \in Dirs, c \in ConnChans : cs.pend[d][c] # "" => (Waits(cs.pend[d][c]) /\ Resp(cs.pend[d][c]) # {})
ClosedIsTerminal == cs.phase = "closed" => \A e \in Universe : ~ConnLegal(cs, e)
CloserIsSilent == cs.phase = "closing" => \A e \in Universe : (e.dir = cs.closer => ~ConnLegal(cs, e))
\* an open connection can always be shut down, a waiting channel can always be answered
CanAlwaysClose == cs.phase = "open" => \A d \in Dirs : ConnLegal(cs, Ev(d, 0, "method", "Connection.Close", 0, 0, 0))
CanAlwaysAnswer == \A d \in Dirs, c \in ConnChans \ {0} :
                      (cs.pend[d][c] # "" /\ cs.phase = "open" /\ cs.chan[c] = "open" /\ cs.asm[Other(d)][c] = Idle)
                      => \E r \in Resp(cs.pend[d][c]) : ConnLegal(cs, Ev(Other(d), c, "method", r, 0, 0, 0))
\* body frames never exceed the negotiated size (action property: every step taken respected the limit in force)
FramesFit == [][\A e \in Universe : (hist' = Append(hist, e)) => SizeFits(cs, e)]_cvars2
\* the order of the handshake: nothing but negotiation before the connection is open
OnlyNegotiationBeforeOpen == cs.phase \notin Live \cup {"closed"} =>
                                \A i \in 1..Len(hist) : hist[i].ch = 0 /\ hist[i].kind \in {"proto", "method", "heartbeat"}

\* reachability (refuted on purpose by MC_Conn_reach.cfg: TLC must exhibit a complete conversation -- negotiation, a channel,
\* a request answered, a message of two body frames delivered, the channel and the connection shut down)
NoCompleteConversation == ~(cs.phase = "closed" /\ seen = Landmarks \cup {"split-body"})
Bound == Len(hist) <= MaxLen
EmitConversation == (~Emit \/ (Len(hist) < MaxLen /\ cs.phase # "closed")) \/ PrintT(<< "S2C", ToJson([conv |-> hist]) >>)
=============================================================================
