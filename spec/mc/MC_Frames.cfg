SPECIFICATION Spec
INVARIANT Accepted
INVARIANT RoundTrip
INVARIANT ReEncode
INVARIANT NoEarlyFrame
INVARIANT TailIndependence
INVARIANT EnvelopeWellFormed
INVARIANT PeekAgrees
CHECK_DEADLOCK FALSE
