CONSTANTS
  Chans = {1, 2}
  MaxSteps = 3
SPECIFICATION RSpec
INVARIANT EveryWaitCanEnd
INVARIANT RepliesAreTerminal
INVARIANT ReplyIdentifiesRequest
INVARIANT RepliesStayInClass
PROPERTY EventuallyReleased
CHECK_DEADLOCK FALSE
