CONSTANTS
  Pool <- PoolDef
  MaxSent = 3
  Mode = "greedy"
SPECIFICATION GenSpec
CHECK_DEADLOCK FALSE
