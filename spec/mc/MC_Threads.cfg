CONSTANTS
  K = 3
  StepsPerCall = 2
  Dev_SharedScratch = FALSE
SPECIFICATION TSpec
INVARIANT PureResults
CHECK_DEADLOCK FALSE
