CONSTANTS
  MaxLen = 11
  UseChans = {1}
  Emit = FALSE
  CloseAfter = 0
  FmSet = {0, 4096}
  CmSet = {0, 1}
  HdrSet = {0, 5}
  BodySet = {5}
  Work = {"Queue.Declare", "Queue.DeclareOk", "Basic.Publish", "Basic.Deliver"}
SPECIFICATION MSpecFair
PROPERTY ShutdownCompletes
CHECK_DEADLOCK FALSE
