----------------------------- MODULE MC_Stream -----------------------------
(* Exhaustive configuration of Stream: a pool of real, adversarial frames of all five kinds,
   every chunking of every sequence of at most MaxSent of them. *)
EXTENDS Stream, Json

Z == [t |-> "int", neg |-> FALSE, mag |-> <<>>]
PoolDef == <<
  [f |-> [cls |-> "Heartbeat"], ch |-> 0],
  [f |-> [cls |-> "ProtocolHeader", v |-> <<0, 9, 1>>], ch |-> 0],
  [f |-> [cls |-> "Tx.Select", vals |-> [x \in {} |-> 0]], ch |-> 1],
  [f |-> [cls |-> "Basic.Ack", vals |-> [delivery_tag |-> [t |-> "int", neg |-> FALSE, mag |-> <<206>>],
                                         multiple |-> [t |-> "bool", b |-> TRUE]]], ch |-> 258],
  \* a body that contains a frame-end octet and a complete heartbeat look-alike
  [f |-> [cls |-> "ContentBody", b |-> <<206, 8, 0, 0, 0, 0, 0, 0, 206>>], ch |-> 2],
  \* a body that starts with the protocol-header literal
  [f |-> [cls |-> "ContentBody", b |-> <<65, 77, 81, 80, 0>>], ch |-> 65535]
>>

\* ---- S2C: every transition that runs the decoder, printed once as JSON (run with -workers 1) ----
EmitDecode == (buf # <<>> /\ (TryDecode \/ PeekRead))
              /\ PrintT(<< "S2C", ToJson([buf |-> buf, n |-> used' - used, got |-> Len(got')]) >>)
GenNext == DoSend \/ DoDeliver \/ EmitDecode
GenSpec == SInit /\ [][GenNext]_svars
=============================================================================
