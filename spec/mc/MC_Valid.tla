----------------------------- MODULE MC_Valid -----------------------------
(***************************************************************************)
(* C13 on the design: validation is applied when an object is constructed  *)
(* and again when it is marshalled, never when it is received.             *)
(*   Construct(q, t)   new Queue.Declare: ValueError iff a constraint is   *)
(*                     broken, otherwise the object exists                 *)
(*   SetAttr(q, t)     attributes can be set to anything, unchecked        *)
(*   DoMarshal         ValueError iff the object is invalid NOW            *)
(*   Receive(q, t)     a peer may send any well-formed frame, also one     *)
(*                     this side would refuse to send: decoding succeeds   *)
(* Invariants: an object is invalid only through SetAttr or Receive;       *)
(* nothing invalid is ever emitted; everything emitted round-trips.        *)
(***************************************************************************)
EXTENDS Frames, TLC

VARIABLES obj, origin, wire, err, act
mvars == << obj, origin, wire, err, act >>

I(n) == MkIntV(IntOf(n))
Queues == { MkStr(<<>>), MkStr(<<97, 46, 98>>), MkStr(Rep(113, 255)), MkStr(Rep(113, 256)), MkStr(Rep(113, 257)),
            MkStr(<<97, 10>>), MkStr(<<233>>), NoneV }
Tickets == { I(0), I(1), MkBool(FALSE), NoneV }
M == MethodByName("Queue.Declare")
Vals(q, t) == [ticket |-> t, queue |-> q, passive |-> MkBool(FALSE), durable |-> MkBool(TRUE), exclusive |-> MkBool(FALSE),
               auto_delete |-> MkBool(FALSE), nowait |-> MkBool(FALSE), arguments |-> MkTable(<<>>)]
Nothing == [x \in {"_"} |-> NoneV]

Init == obj = Nothing /\ origin = "none" /\ wire = <<>> /\ err = "" /\ act = "init"
Construct(q, t) == act' = "construct" /\ IF Valid(M, Vals(q, t)) THEN obj' = Vals(q, t) /\ origin' = "constructed" /\ err' = "" /\ UNCHANGED wire
                   ELSE err' = "ValueError" /\ UNCHANGED << obj, origin, wire >>
SetAttr(q, t) == act' = "setattr" /\ origin # "none" /\ obj' = [obj EXCEPT !.queue = q, !.ticket = t] /\ origin' = "mutated" /\ err' = "" /\ UNCHANGED wire
DoMarshal == /\ origin # "none" /\ act' = "marshal"
             /\ LET r == Marshal(FALSE, [cls |-> "Queue.Declare", vals |-> obj], 1) IN
                IF r.ok THEN wire' = r.b /\ err' = "" ELSE err' = r.err /\ UNCHANGED wire
             /\ UNCHANGED << obj, origin >>
\* what a peer without our scruples puts on the wire: the argument encoder without the validation step
PeerBytes(q, t) == LET a == EncArgs(FALSE, M, Vals(q, t)) IN
                   IF a.ok THEN Envelope(1, 1, U16(M.cid) \o U16(M.mid) \o a.b) ELSE <<>>
Receive(q, t) == /\ act' = "receive" /\ q.t = "str" /\ t.t = "int" /\ PeerBytes(q, t) # <<>>
                 /\ LET r == Unmarshal(PeerBytes(q, t)) IN
                    /\ r.k = "frame"                                   \* decoding never validates
                    /\ obj' = r.f.vals /\ origin' = "received" /\ err' = "" /\ UNCHANGED wire
Next == \/ \E q \in Queues, t \in Tickets : Construct(q, t) \/ SetAttr(q, t) \/ Receive(q, t)
        \/ DoMarshal
Spec == Init /\ [][Next]_mvars

ConstructedIsValid == origin = "constructed" => Valid(M, obj)
OnlyValidIsEmitted == wire # <<>> => LET r == Unmarshal(wire) IN r.k = "frame" /\ Valid(M, r.f.vals)
MarshalRefusesExactlyTheInvalid == [][act' = "marshal" => ((err' = "ValueError") <=> ~Valid(M, obj))]_mvars
ConstructRefusesExactlyTheInvalid == [][act' = "construct" => ((err' = "ValueError") <=> UNCHANGED obj \/ (err' = "" /\ Valid(M, obj')))]_mvars
ReceivedMayBeInvalid == TRUE          \* (witnessed by the action counts: Receive is taken with invalid names)
=============================================================================
