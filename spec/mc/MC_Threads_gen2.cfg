CONSTANTS
  K = 3
  StepsPerCall = 2
  Dev_SharedScratch = FALSE
SPECIFICATION TSpec
INVARIANT PureResults
INVARIANT EmitSchedule
CHECK_DEADLOCK FALSE
