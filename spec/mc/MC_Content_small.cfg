CONSTANTS
  Chans = {1, 2}
  FrameMax = 2
  MaxMsgs = 1
SPECIFICATION CSpec
INVARIANT NoProtocolError
INVARIANT DeliveredIsPrefixOfPublished
INVARIANT BodyNeverOverruns
PROPERTY EverythingDelivered
CHECK_DEADLOCK FALSE
