SPECIFICATION Spec
INVARIANT Accepted
INVARIANT ExactlyTheSetOnes
INVARIANT ReEncode
INVARIANT FlagsMsbFirst
INVARIANT EmptyStringIsUnset
CHECK_DEADLOCK FALSE
