SPECIFICATION Spec
INVARIANT TZIrrelevant
INVARIANT SameInstantSameBytes
INVARIANT DecodedIsUtc
PROPERTY ZoneChangeTouchesNothingElse
CHECK_DEADLOCK FALSE
