CONSTANTS
  MaxLen = 5
  Alphabet <- Alpha
  Dev_EmptyValueConsumesZero = FALSE
  Dev_FlagLoopDoesNotAdvance = FALSE
SPECIFICATION DSpec
INVARIANT StepBound
INVARIANT OutputBounded
PROPERTY Progress
PROPERTY Terminates
CHECK_DEADLOCK FALSE
