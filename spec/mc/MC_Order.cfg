SPECIFICATION Spec
INVARIANT OrderIndependent
INVARIANT InnerOrderIndependent
INVARIANT SortedOnWire
CHECK_DEADLOCK FALSE
