CONSTANTS
  MaxObjs = 3
  MaxUser = 2
  MaxOps = 7
SPECIFICATION ASpec
VIEW View
CONSTRAINT Bound
INVARIANT LibraryCellsFresh
INVARIANT SharedOnlyThroughUser
INVARIANT DefaultIsAlwaysTheDefault
INVARIANT DecodedIsIsolated
INVARIANT RefusedIffSpoiled
PROPERTY MarshalIsPure
CHECK_DEADLOCK FALSE
