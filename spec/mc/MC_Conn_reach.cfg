CONSTANTS
  MaxLen = 26
  UseChans = {1}
  Emit = FALSE
  CloseAfter = 0
  FmSet = {4096}
  CmSet = {1}
  HdrSet = {4090}
  BodySet = {2, 4088}
  Work = {"Queue.Declare", "Queue.DeclareOk", "Basic.Deliver", "Basic.Get", "Basic.GetEmpty"}
SPECIFICATION MSpec
VIEW View
INVARIANT NoCompleteConversation
CHECK_DEADLOCK FALSE
