CONSTANTS
  MaxLen = 24
  UseChans = {1}
  Emit = FALSE
SPECIFICATION MSpec
VIEW View
INVARIANT NoCompleteConversation
CHECK_DEADLOCK FALSE
