---- MODULE MC_Catalog ----
(* C14 / C17 / C13 on the specification's own tables: internal consistency of Catalog.tla, checked by TLC
   as invariants of a one-state model (so that the numbers are reported like any other run). *)
EXTENDS Frames, TLC
VARIABLE x
Init == x \in 1..Len(Methods)
Next == UNCHANGED x
Spec == Init /\ [][Next]_x
M == Methods[x]
WellFormed == CatalogWellFormed
IndexUnique == \A j \in 1..Len(Methods) : (Methods[j].cid = M.cid /\ Methods[j].mid = M.mid) => j = x
RepliesInSameClass == \A j \in 1..Len(M.resp) : M.resp[j] \in MethodNames /\ MethodByName(M.resp[j]).cid = M.cid
\* a reply is never itself a request that expects a reply (no RPC chains)
RepliesAreTerminal == \A j \in 1..Len(M.resp) : ~Synchronous(MethodByName(M.resp[j]))
\* every default the specification states is a value the send-side validation accepts
DefaultsValid == \A i \in 1..Len(M.args) : M.args[i].def.t # "nodef" => ArgValid(M.name, M.args[i], M.args[i].def)
\* and one the reference encoder can encode
DefaultsEncodable == \A i \in 1..Len(M.args) :
    (M.args[i].def.t # "nodef" /\ M.args[i].ty # "bit") => EncArg(FALSE, M.args[i].ty, M.args[i].def).ok
AtMostEightBitsInARow == \A i \in 1..Len(M.args) : M.args[i].ty = "bit" =>
    Cardinality({ j \in 1..Len(M.args) : M.args[j].ty = "bit" }) <= 8
ReplyCodesPartition == \A i \in 1..18 : ReplyCodes[i].kind \in {"soft", "hard"}
                       /\ (ReplyCodes[i].value \in {311, 312, 313, 403, 404, 405, 406} <=> ReplyCodes[i].kind = "soft")
====
