----------------------------- MODULE MC_Values -----------------------------
(***************************************************************************)
(* The reference codec checked against itself on a small domain (C03, C10, *)
(* C12): for every small value v and both settings of the legacy switch    *)
(*   - a value of the statement's domain is accepted,                      *)
(*   - DecVal(EncVal(v)) consumes everything and yields Norm(v), with the  *)
(*     Python type preserved (bool stays bool, negative stays negative),   *)
(*   - keys are ascending on the wire at every level, and every            *)
(*     permutation of a table's entries encodes to the same bytes,         *)
(*   - the spec has no silent wrap-around: whatever it encodes decodes     *)
(*     back (out-of-range values are Err, never other bytes).              *)
(* These are the lemmas that make conformance transitive: the code is      *)
(* shown equal to EncVal / DecVal pointwise by the trace checks.           *)
(***************************************************************************)
EXTENDS FieldValue, TLC, Json

CONSTANT Depth2        \* BOOLEAN: also nest containers in containers

VARIABLES v, lg
vvars == << v, lg >>

I(n) == MkIntV(IntOf(n))
BigInts == { MkIntV([neg |-> n, mag |-> m]) : n \in BOOLEAN,
             m \in { <<128, 0, 0, 0>>, <<255, 255, 255, 255>>, <<1, 0, 0, 0, 0>>, <<127, 255, 255, 255, 255, 255, 255, 255>>,
                     <<128, 0, 0, 0, 0, 0, 0, 0>>, <<128, 0, 0, 0, 0, 0, 0, 1>>, <<1, 0, 0, 0, 0, 0, 0, 0, 0>> } }
Ints == { I(n) : n \in {-32769, -32768, -129, -128, -1, 0, 1, 127, 128, 255, 256, 32767, 32768, 65535, 65536} } \cup BigInts
Floats == { MkFloat(d) : d \in { <<0,0,0,0,0,0,0,0>>, <<128,0,0,0,0,0,0,0>>, <<63,240,0,0,0,0,0,0>>, <<63,185,153,153,153,153,153,154>>,
                                 <<71,239,255,255,224,0,0,0>>, <<71,239,255,255,240,0,0,0>>, <<127,240,0,0,0,0,0,0>>,
                                 <<127,248,0,0,0,0,0,0>>, <<54,160,0,0,0,0,0,0>>, <<54,144,0,0,0,0,0,0>>, <<63,240,0,0,16,0,0,0>> } }
Decs == { MkDec(n, d, e) : n \in BOOLEAN, d \in { <<0>>, <<1,5>>, <<2,1,4,7,4,8,3,6,4,7>>, <<2,1,4,7,4,8,3,6,4,8>> }, e \in {-256, -255, -1, 0, 1} }
Texts == { <<>>, <<97>>, <<233>>, <<8364, 97>>, <<128512>>, <<55296>> }
Strs == { MkStr(t) : t \in Texts }
Dts == { [t |-> "dt", y |-> 1970, mo |-> 1, d |-> 1, h |-> 0, mi |-> 0, s |-> 0, us |-> 0, off |-> <<>>],
         [t |-> "dt", y |-> 1969, mo |-> 12, d |-> 31, h |-> 23, mi |-> 59, s |-> 59, us |-> 0, off |-> <<0>>],
         [t |-> "dt", y |-> 2038, mo |-> 1, d |-> 19, h |-> 3, mi |-> 14, s |-> 8, us |-> 999999, off |-> <<3600>>],
         [t |-> "dt", y |-> 2106, mo |-> 2, d |-> 7, h |-> 6, mi |-> 28, s |-> 15, us |-> 0, off |-> <<0>>],
         [t |-> "dt", y |-> 2106, mo |-> 2, d |-> 7, h |-> 6, mi |-> 28, s |-> 16, us |-> 0, off |-> <<0>>],
         [t |-> "st", y |-> 2000, mo |-> 2, d |-> 29, h |-> 12, mi |-> 0, s |-> 1] }
Leaves == { MkBool(TRUE), MkBool(FALSE), MkNone, MkByteArray(<<>>), MkByteArray(<<0, 206>>), MkBytes(<<1>>) }
          \cup Ints \cup Floats \cup Decs \cup Strs \cup Dts
Few == { MkBool(TRUE), I(-1), I(128), MkStr(<<233>>), MkNone, MkFloat(<<63,185,153,153,153,153,153,154>>) }
KeySet == { <<>>, <<97>>, <<97, 98>>, <<233>> }
Arrays(S) == { MkArray(<<>>) } \cup { MkArray(<<a>>) : a \in S } \cup { MkArray(<<a, b>>) : a, b \in S }
Tables(S) == { MkTable(<<>>) } \cup { MkTable(<< [k |-> k, v |-> a] >>) : k \in KeySet, a \in S }
             \cup { MkTable(<< [k |-> k1, v |-> a], [k |-> k2, v |-> b] >>) : k1, k2 \in KeySet, a, b \in S }
D1 == Arrays(Few) \cup Tables(Few)
Small1 == Leaves \cup Arrays(Leaves) \cup { MkTable(<< [k |-> k, v |-> a] >>) : k \in KeySet, a \in Leaves } \cup D1
Nested == { MkArray(<<c>>) : c \in D1 } \cup { MkTable(<< [k |-> <<97>>, v |-> c] >>) : c \in D1 }
          \cup { MkTable(<< [k |-> <<98>>, v |-> I(1)], [k |-> <<97>>, v |-> c] >>) : c \in Tables({I(-1), MkNone}) }
SmallValues == IF Depth2 THEN Small1 \cup Nested ELSE Small1

Init == v \in SmallValues /\ lg \in BOOLEAN
Next == UNCHANGED vvars
Spec == Init /\ [][Next]_vvars

R == EncVal(lg, v)
Dom == DictShaped(v)                              \* duplicate keys are not a dict
DomainAccepted == (Dom /\ Encodable03(v, 2)) => R.ok
RoundTrip == (Dom /\ R.ok /\ ~Exempt10(v)) => LET d == DecVal(R.b) IN d.ok /\ d.n = Len(R.b) /\ SameValue(d.v, Norm(v))
NoSilentCorruption == RoundTrip         \* the same statement read for out-of-domain values: Err or round trip
TypePreserved == (Dom /\ R.ok) => DecVal(R.b).v.t = (IF v.t = "st" THEN "dt" ELSE v.t)
SortedOnWire == (Dom /\ R.ok) => LET d == DecVal(R.b) IN
                   \A i \in 1..(IF d.v.t = "table" THEN Len(d.v.e) - 1 ELSE 0) : TextLess(d.v.e[i].k, d.v.e[i+1].k)
OrderIndependent == (Dom /\ v.t = "table" /\ Len(v.e) = 2) => EncVal(lg, MkTable(<< v.e[2], v.e[1] >>)) = R
\* S2C: every small value once (generator config, -workers 1): the drivers encode/decode each with the real code
EmitValue == lg \/ PrintT(<< "S2C", ToJson([v |-> v]) >>)
LegacyOnlySigned == (Dom /\ lg /\ R.ok) => IntTags(DecVal(R.b).v) \subseteq { Tg.b, Tg.s, Tg.I, Tg.l }
=============================================================================
