----------------------------- MODULE MC_Ladder -----------------------------
(***************************************************************************)
(* C11 on the design: the integer ladder as a state machine with the       *)
(* process-global legacy switch.  Toggle(arg) and Encode(x) in any order;  *)
(* every property is an invariant over the last encode.  The ladder is     *)
(* stated a SECOND time here, independently of FieldValue!TableInt, as     *)
(* "first type of the documented order whose range contains x".            *)
(***************************************************************************)
EXTENDS FieldValue, TLC, Json

CONSTANTS Lo, Hi, MaxLen          \* native integers Lo..Hi are lifted to Int records ; history bound for the generator

LoQuick == -300
LoFull == -70000
MinusOne == -1

VARIABLES legacy, last, hist, chunk     \* chunk: which slice of Lo..Hi this branch of the search sweeps (parallelism only)
lvars == << legacy, last, hist, chunk >>

Big == { [neg |-> n, mag |-> Pow2Mag(k)] : n \in BOOLEAN, k \in {7, 8, 15, 16, 31, 32, 63, 64} }
Near(x) == { IntAdd(x, IntOf(d)) : d \in -2..2 }
AllProbes == UNION { Near(x) : x \in Big } \cup { IntOf(n) : n \in Lo..Hi }
\* the generator explores whole histories, over a handful of integers whose tag depends on the switch
SmallProbes == { IntOf(127), IntOf(-129), IntOf(32768), IntOf(65535), IntOf(65536),
                 [neg |-> FALSE, mag |-> <<128, 0, 0, 0>>], [neg |-> FALSE, mag |-> <<255, 255, 255, 255>>],
                 [neg |-> FALSE, mag |-> <<1, 0, 0, 0, 0>>] }
NChunks == 64
ChunkSize == ((Hi - Lo) \div NChunks) + 1
ChunkProbes(c) == IF MaxLen > 0 THEN SmallProbes
                  ELSE IF c = 0 THEN UNION { Near(x) : x \in Big }
                  ELSE { IntOf(n) : n \in (Lo + (c - 1) * ChunkSize)..MinI(Hi, Lo + c * ChunkSize - 1) }
Probes == IF MaxLen > 0 THEN SmallProbes ELSE AllProbes

\* the documented order and ranges, stated directly
Order(lg) == IF lg THEN << "b", "s", "I", "l" >> ELSE << "b", "s", "u", "I", "i", "l" >>
InRange(tag, x) == CASE tag = "b" -> FitsSigned(x, 1)   [] tag = "s" -> FitsSigned(x, 2)
                     [] tag = "u" -> FitsUnsigned(x, 2) [] tag = "I" -> FitsSigned(x, 4)
                     [] tag = "i" -> FitsUnsigned(x, 4) [] tag = "l" -> FitsSigned(x, 8)
Width(tag) == CASE tag \in {"b"} -> 1 [] tag \in {"s", "u"} -> 2 [] tag \in {"I", "i"} -> 4 [] tag = "l" -> 8
TagByte == [b |-> 98, s |-> 115, u |-> 117, I |-> 73, i |-> 105, l |-> 108]
FirstFit(lg, x) == LET o == Order(lg) fits == { j \in 1..Len(o) : InRange(o[j], x) } IN
                   IF fits = {} THEN "none" ELSE o[CHOOSE j \in fits : \A k \in fits : j <= k]

Init == legacy = FALSE /\ last = [kind |-> "none"] /\ hist = <<>> /\ chunk \in 0..(IF MaxLen > 0 \/ Hi < Lo THEN 0 ELSE NChunks)

Toggle(arg) == /\ legacy' = (arg # "false")              \* "true" and "noarg" switch legacy support ON
               /\ last' = [kind |-> "toggle"]
               /\ hist' = IF Len(hist) < MaxLen THEN Append(hist, [a |-> "toggle", arg |-> arg]) ELSE hist
               /\ UNCHANGED chunk
\* (in the exhaustive configs an encode is followed by Reset or Toggle: successors stay linear in |Probes|)
Encode(x) == /\ (MaxLen > 0 \/ last.kind # "enc")
             /\ last' = [kind |-> "enc", x |-> x, mode |-> legacy, r |-> TableInt(legacy, x)]
             /\ hist' = IF Len(hist) < MaxLen THEN Append(hist, [a |-> "enc", neg |-> x.neg, mag |-> x.mag]) ELSE hist
             /\ UNCHANGED << legacy, chunk >>

\* a table the encoder must refuse (for reasons that have nothing to do with integers): the refusal is an outcome of the
\* call like any other -- it leaves the switch, and everything a later encode depends on, unchanged
Euro100 == [i \in 1..100 |-> 8364]
BadTables == { MkTable(<< [k |-> Euro100, v |-> MkIntV(IntOf(1))] >>),                                         \* key of 300 UTF-8 bytes
               MkTable(<< [k |-> <<107>>, v |-> MkFloat(<<72, 7, 130, 135, 244, 156, 74, 29>>)] >>),           \* 1e39 does not fit binary32
               MkTable(<< [k |-> <<107>>, v |-> MkDec(FALSE, <<9, 9, 9, 9, 9, 9, 9, 9, 9, 9, 9>>, 0)] >>),       \* unscaled value beyond int32
               MkTable(<< [k |-> <<107>>, v |-> [t |-> "st", y |-> 1969, mo |-> 12, d |-> 31, h |-> 23, mi |-> 59, s |-> 59]] >>),
               MkTable(<< [k |-> <<107>>, v |-> MkIntV([neg |-> FALSE, mag |-> <<1, 0, 0, 0, 0, 0, 0, 0, 0>>])] >>) }
EncodeBad(b) == /\ MaxLen > 0
                /\ last' = [kind |-> "bad", r |-> EncVal(legacy, b)]
                /\ hist' = IF Len(hist) < MaxLen THEN Append(hist, [a |-> "bad", v |-> b]) ELSE hist
                /\ UNCHANGED << legacy, chunk >>
BadIsRefused == last.kind = "bad" => ~last.r.ok

Reset == last.kind = "enc" /\ last' = [kind |-> "none"] /\ UNCHANGED << legacy, hist, chunk >>
Next == (\E arg \in {"true", "false", "noarg"} : Toggle(arg)) \/ (\E x \in ChunkProbes(chunk) : Encode(x)) \/ Reset \/ (\E b \in BadTables : EncodeBad(b))
Spec == Init /\ [][Next]_lvars
View == << legacy, last, chunk >>         \* the history is an observation variable: hidden from the state space

IsEnc == last.kind = "enc"
SmallestFit == (IsEnc /\ last.r.ok) =>
                  LET t == FirstFit(last.mode, last.x) IN
                  /\ t # "none" /\ last.r.b[1] = TagByte[t] /\ Len(last.r.b) = 1 + Width(t)
LegacyOnlySigned == (IsEnc /\ last.mode /\ last.r.ok) => last.r.b[1] \in { TagByte.b, TagByte.s, TagByte.I, TagByte.l }
SameAccepted == IsEnc => (last.r.ok <=> InInt64(last.x)) /\ (~last.r.ok => last.r.err = "TypeError")
RoundTrips == (IsEnc /\ last.r.ok) => LET d == DecVal(last.r.b) IN d.ok /\ d.n = Len(last.r.b) /\ IntOfV(d.v) = last.x
\* the switch is the only state an encode depends on, and a toggle fully determines it
ToggleDetermines == [][last'.kind # "toggle" => legacy' = legacy]_lvars     \* only a toggle changes the switch
EncodeIsPure == [][last'.kind = "enc" => legacy' = legacy]_lvars

GenBound == Len(hist) <= MaxLen /\ TLCGet("level") <= MaxLen + 1
\* S2C: complete toggle/encode histories of length MaxLen (generator config, -workers 1)
EmitHistory == Len(hist) < MaxLen \/ PrintT(<< "S2C", ToJson([hist |-> hist]) >>)
=============================================================================
