----------------------------- MODULE MC_Props -----------------------------
(* C02 on the design: every one of the 2^13 presence subsets of the settable Basic properties (one fixed
   value each): flags MSB-first, exactly the set properties come back, re-encoding reproduces the bytes;
   plus the statement's "non-None, non-empty-string" reading of 'set'. *)
EXTENDS Frames, TLC

VARIABLE mask
I(n) == MkIntV(IntOf(n))
Settable == << "content_type", "content_encoding", "headers", "delivery_mode", "priority", "correlation_id", "reply_to",
               "expiration", "message_id", "timestamp", "message_type", "user_id", "app_id" >>
ValueOf(nm) ==
    CASE nm = "headers" -> MkTable(<< [k |-> <<122>>, v |-> I(-1)], [k |-> <<97>>, v |-> MkStr(<<233>>)] >>)
      [] nm = "delivery_mode" -> I(2)
      [] nm = "priority" -> I(0)
      [] nm = "timestamp" -> [t |-> "dt", y |-> 2106, mo |-> 2, d |-> 7, h |-> 6, mi |-> 28, s |-> 15, us |-> 0, off |-> <<0>>]
      [] OTHER -> MkStr(<<120, 8364>>)
Bit(m, i) == (m \div (2 ^ (i - 1))) % 2 = 1
PropsOf(m) == [nm \in PropNames |->
                 IF nm = "cluster_id" THEN MkStr(<<>>)
                 ELSE LET i == CHOOSE j \in 1..13 : Settable[j] = nm IN IF Bit(m, i) THEN ValueOf(nm) ELSE NoneV]
Init == mask \in 0..8191
Next == UNCHANGED mask
Spec == Init /\ [][Next]_mask

E == EncProps(FALSE, PropsOf(mask))
D == DecProps(E.b)
Accepted == E.ok
ExactlyTheSetOnes == D.ok /\ D.n = Len(E.b) /\ SameProps(PropsOf(mask), D.v)
ReEncode == EncProps(FALSE, D.v) = E
\* flag word: bit 15 - (i - 1) set iff the i-th property is present; low two bits clear
FlagsMsbFirst == LET w == FromU16(Take(E.b, 2)) IN
                 /\ \A i \in 1..13 : ((w \div (2 ^ (16 - i))) % 2 = 1) <=> Bit(mask, i)
                 /\ w % 8 = 0
\* "set" means non-None and non-empty-string: an empty string is not sent
EmptyStringIsUnset == LET p == [PropsOf(mask) EXCEPT !.content_type = MkStr(<<>>)] IN
                      EncProps(FALSE, p) = EncProps(FALSE, [p EXCEPT !.content_type = NoneV])
=============================================================================
