CONSTANTS
  MaxLen = 3
  Alphabet <- Alpha
  Dev_EmptyValueConsumesZero = FALSE
  Dev_FlagLoopDoesNotAdvance = TRUE
SPECIFICATION DSpec
INVARIANT StepBound
CONSTRAINT Bound
CHECK_DEADLOCK FALSE
