----------------------------- MODULE MC_Frames -----------------------------
(***************************************************************************)
(* The reference frame codec checked against itself over all 64 methods    *)
(* with small argument domains (all combinations of the bit arguments,     *)
(* boundary integers of every width, empty / 1-character / multi-byte      *)
(* strings, small tables), content headers, bodies, heartbeat and protocol *)
(* header, on boundary channels:                                           *)
(*   RoundTrip (C01, C02, C18)   Unmarshal(Marshal(f, ch)) = (len, ch, f)  *)
(*   NoEarlyFrame (C07)          every strict prefix is Incomplete         *)
(*   TailIndependence (C06)      bytes after the frame change nothing      *)
(*   EnvelopeWellFormed (C04)    size field, 0xCE, type octet              *)
(*   PeekAgrees (C20)            peeked size + 8 = length, same channel    *)
(***************************************************************************)
EXTENDS Frames, TLC, Json

VARIABLES f, ch
fvars == << f, ch >>

I(n) == MkIntV(IntOf(n))
Big(m) == MkIntV([neg |-> FALSE, mag |-> m])
S(cps) == MkStr(cps)
Dom(ty) ==
    CASE ty = "bit" -> { MkBool(TRUE), MkBool(FALSE) }
      [] ty = "octet" -> { I(0), I(255) }
      [] ty = "short" -> { I(0), I(65535) }
      [] ty = "long" -> { I(0), Big(<<255, 255, 255, 255>>) }
      [] ty = "longlong" -> { I(1), Big(<<127, 255, 255, 255, 255, 255, 255, 255>>) }
      [] ty = "shortstr" -> { S(<<>>), S(<<97, 233>>) }
      [] ty = "longstr" -> { S(<<>>), S(<<128512>>) }
      [] ty = "table" -> { MkNone, MkTable(<< [k |-> <<98>>, v |-> I(-1)], [k |-> <<97>>, v |-> MkTable(<<>>)] >>) }
      [] ty = "timestamp" -> { [t |-> "dt", y |-> 2038, mo |-> 1, d |-> 19, h |-> 3, mi |-> 14, s |-> 8, us |-> 0, off |-> <<0>>] }

\* argument values that also satisfy the send-side validation (ticket 0, fixed values ...)
ArgDom(cls, a) ==
    IF a.n = "ticket" THEN { I(0) }
    ELSE IF \E fx \in FixedArgs : fx[1] = cls /\ fx[2] = a.n
         THEN { (CHOOSE fx \in FixedArgs : fx[1] = cls /\ fx[2] = a.n)[3] }
    ELSE IF <<cls, a.n>> \in ExchangeNameArgs \cup QueueNameArgs THEN { S(<<>>), S(<<97, 46, 98>>) }
    ELSE Dom(a.ty)

RECURSIVE Prod(_, _, _)
Prod(m, i, acc) == IF i > Len(m.args) THEN { acc }
                   ELSE UNION { Prod(m, i + 1, acc @@ (m.args[i].n :> x)) : x \in ArgDom(m.name, m.args[i]) }
ValsOf(m) == IF Len(m.args) = 0 THEN { [x \in {"_"} |-> MkNone] }
             ELSE UNION { Prod(m, 2, (m.args[1].n :> x)) : x \in ArgDom(m.name, m.args[1]) }

MethodFrames == UNION { { [cls |-> Methods[i].name, vals |-> g] : g \in ValsOf(Methods[i]) } : i \in 1..Len(Methods) }

NoProps == [nm \in PropNames |-> IF nm = "cluster_id" THEN S(<<>>) ELSE NoneV]
HeaderFrames == { [cls |-> "ContentHeader", weight |-> 0, size |-> sz, size_ok |-> TRUE, class_id |-> 60, props |-> p] :
                    sz \in { <<>>, <<1, 0, 0, 0, 0>>, <<255, 255, 255, 255, 255, 255, 255, 255>> },
                    p \in { NoProps, [NoProps EXCEPT !.content_type = S(<<97>>), !.priority = I(0)],
                            [NoProps EXCEPT !.headers = MkTable(<<>>), !.app_id = S(<<233>>), !.delivery_mode = I(2)] } }
BodyFrames == { [cls |-> "ContentBody", b |-> b] : b \in { <<0>>, <<206>>, <<65, 77, 81, 80>>, <<8, 0, 0, 0, 0, 0, 0, 206>> } }
OtherFrames == { [cls |-> "Heartbeat"] } \cup { [cls |-> "ProtocolHeader", v |-> v] : v \in { <<0, 9, 1>>, <<255, 0, 10>> } }
AllFrames == MethodFrames \cup HeaderFrames \cup BodyFrames \cup OtherFrames
Channels == { 1, 65535 }
Tails == { <<0>>, <<206>>, <<65, 77, 81, 80>>, <<8, 0, 0, 0, 0, 0, 0, 206>>, <<1, 0, 0, 0, 0, 0, 4>> }

Init == f \in AllFrames /\ ch \in Channels
Next == UNCHANGED fvars
Spec == Init /\ [][Next]_fvars

\* S2C: every small frame once (generator config, -workers 1)
EmitFrame == ch # 1 \/ PrintT(<< "S2C", ToJson([f |-> f]) >>)
M == Marshal(FALSE, f, ch)
IsMethod == f.cls \in MethodNames
FixedKind == f.cls \in {"Heartbeat", "ProtocolHeader"}
Accepted == M.ok
RoundTrip == LET r == Unmarshal(M.b) IN
    /\ r.k = "frame" /\ r.n = Len(M.b) /\ r.ch = (IF FixedKind THEN 0 ELSE ch)
    /\ r.f.cls = f.cls
    /\ IsMethod => SameMethod(f, r.f)
    /\ f.cls = "ContentHeader" => (r.f.size = f.size /\ r.f.class_id = 60 /\ SameProps(f.props, r.f.props))
    /\ f.cls = "ContentBody" => r.f.b = f.b
    /\ f.cls = "ProtocolHeader" => r.f.v = f.v
ReEncode == LET r == Unmarshal(M.b) IN
    f.cls = "ContentHeader" => Marshal(FALSE, [r.f EXCEPT !.size = PadLeft(@, 8)], ch).b = M.b
NoEarlyFrame == \A k \in 0..(Len(M.b) - 1) : Unmarshal(Take(M.b, k)) = Incomplete
TailIndependence == \A t \in Tails : Unmarshal(M.b \o t) = Unmarshal(M.b)
EnvelopeWellFormed == f.cls # "ProtocolHeader" =>
    /\ M.b[Len(M.b)] = FrameEnd /\ Len32(SubSeq(M.b, 4, 7)) = Len(M.b) - 8
    /\ M.b[1] = (IF IsMethod THEN 1 ELSE IF f.cls = "ContentHeader" THEN 2 ELSE IF f.cls = "ContentBody" THEN 3 ELSE 8)
PeekAgrees == f.cls # "ProtocolHeader" =>
    LET p == FrameParts(M.b \o <<1, 2, 3>>) IN
    /\ p.ok /\ Len32(p.size) + 8 = Len(M.b) /\ p.ch = (IF FixedKind THEN 0 ELSE ch)
    /\ Unmarshal(Take(M.b \o <<1, 2, 3>>, Len32(p.size) + 8)).n = Len(M.b)
=============================================================================
