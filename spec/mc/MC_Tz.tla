---- MODULE MC_Tz ----
(* C15 on the design, by self-composition: two copies of the codec run the same calls while their process
   time zones are changed independently (SetTZ); the results must coincide.  In the specification the zone
   is written by SetTZ and read by no other action, so this holds structurally -- the model makes that
   explicit and TLC enumerates every interleaving of zone changes and calls over the instants below. *)
EXTENDS FieldValue, TLC
VARIABLES tzA, tzB, lastA, lastB
tvars == << tzA, tzB, lastA, lastB >>
Zones == { "UTC", "America/New_York", "Asia/Kathmandu", "Pacific/Kiritimati" }
Dt(y, mo, d, h, mi, s, off) == [t |-> "dt", y |-> y, mo |-> mo, d |-> d, h |-> h, mi |-> mi, s |-> s, us |-> 0, off |-> off]
Instants == { Dt(1970, 1, 1, 0, 0, 0, <<>>), Dt(2021, 3, 14, 2, 30, 0, <<>>), Dt(2021, 11, 7, 1, 30, 0, <<>>),
              Dt(2021, 3, 14, 2, 30, 0, <<-18000>>), Dt(2038, 1, 19, 3, 14, 8, <<20700>>), Dt(2106, 2, 7, 6, 28, 15, <<0>>),
              [t |-> "st", y |-> 2021, mo |-> 7, d |-> 1, h |-> 12, mi |-> 0, s |-> 0] }
Wires == { <<0,0,0,0,0,0,0,0>>, <<0,0,0,0,96,78,46,40>>, <<0,0,0,0,255,255,255,255>>, <<0,0,1,139,207,229,104,123>> }
\* what a call computes: a function of its argument alone
EncodeResult(v) == Timestamp(v)
DecodeResult(w) == DecTimestamp(w)
Init == tzA = "UTC" /\ tzB = "UTC" /\ lastA = <<>> /\ lastB = <<>>
SetTZA(z) == tzA' = z /\ UNCHANGED << tzB, lastA, lastB >>
SetTZB(z) == tzB' = z /\ UNCHANGED << tzA, lastA, lastB >>
Encode(v) == lastA' = EncodeResult(v) /\ lastB' = EncodeResult(v) /\ UNCHANGED << tzA, tzB >>
Decode(w) == lastA' = DecodeResult(w) /\ lastB' = DecodeResult(w) /\ UNCHANGED << tzA, tzB >>
Next == (\E z \in Zones : SetTZA(z) \/ SetTZB(z)) \/ (\E v \in Instants : Encode(v)) \/ (\E w \in Wires : Decode(w))
Spec == Init /\ [][Next]_tvars
TZIrrelevant == lastA = lastB
ZoneChangeTouchesNothingElse == [][(tzA' # tzA \/ tzB' # tzB) => UNCHANGED << lastA, lastB >>]_tvars
\* naive, aware and struct_time spellings of one instant encode to the same bytes
SameInstantSameBytes == EncodeResult(Dt(2021, 3, 14, 7, 30, 0, <<>>)) = EncodeResult(Dt(2021, 3, 14, 2, 30, 0, <<-18000>>))
DecodedIsUtc == \A w \in Wires : DecodeResult(w).ok => DecodeResult(w).v.off = <<0>>
====
