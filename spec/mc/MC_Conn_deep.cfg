CONSTANTS
  MaxLen = 16
  UseChans = {1, 2}
  Emit = FALSE
  CloseAfter = 0
  FmSet = {0, 4095, 4096, 8192}
  CmSet = {0, 1, 2}
  HdrSet = {0, 5, 4090}
  BodySet = {2, 5, 4088, 4089, 4090}
  Work = {"Queue.Declare", "Queue.DeclareOk", "Basic.Publish", "Basic.Deliver", "Basic.Get", "Basic.GetOk", "Basic.GetEmpty", "Basic.Ack", "Confirm.Select", "Confirm.SelectOk"}
SPECIFICATION MSpec
VIEW View
INVARIANT TypeOK
INVARIANT NegotiatedWithinOffer
INVARIANT ChannelsNeedAnOpenConnection
INVARIANT ChannelZeroIsNeverAChannel
INVARIANT ChannelsWithinChannelMax
INVARIANT NoAssemblyError
INVARIANT WorkOnlyOnOpenChannels
INVARIANT PendingIsARequest
INVARIANT ClosedIsTerminal
INVARIANT CloserIsSilent
INVARIANT CanAlwaysClose
INVARIANT CanAlwaysAnswer
INVARIANT OnlyNegotiationBeforeOpen
PROPERTY FramesFit
CHECK_DEADLOCK FALSE
