CONSTANTS
  Lo <- LoFull
  Hi = 70000
  MaxLen = 0
SPECIFICATION Spec
VIEW View
INVARIANT SmallestFit
INVARIANT LegacyOnlySigned
INVARIANT SameAccepted
INVARIANT RoundTrips
PROPERTY ToggleDetermines
PROPERTY EncodeIsPure
CHECK_DEADLOCK FALSE
