CONSTANTS
  Depth2 = TRUE
SPECIFICATION Spec
INVARIANT EmitValue
CHECK_DEADLOCK FALSE
