---- MODULE MC_Threads ----
EXTENDS Threads
====
