----------------------------- MODULE MC_Content -----------------------------
(* Design model of content assembly: a sender publishes messages (small bodies) on two channels, splits each body
   into frames of at most FrameMax bytes, interleaves the channels and heartbeats arbitrarily; the assembler must
   deliver exactly the published messages, per channel in order, and never reach the error mode. *)
EXTENDS Content

CONSTANTS Chans, FrameMax, MaxMsgs

VARIABLES outq,       \* channel -> frames still to be sent (the sender's per-channel queue)
          published,  \* channel -> messages handed to the sender
          asm, delivered
cvars == << outq, published, asm, delivered >>

Bodies == { <<>>, <<1>>, <<1, 2>>, <<206, 8, 0>>, <<1, 2, 3, 4, 5>> }
RECURSIVE Chunks(_)
Chunks(b) == IF b = <<>> THEN <<>> ELSE IF Len(b) <= FrameMax THEN << [kind |-> "body", b |-> b] >>
             ELSE << [kind |-> "body", b |-> SubSeq(b, 1, FrameMax)] >> \o Chunks(SubSeq(b, FrameMax + 1, Len(b)))
FramesOf(m, b) == << [kind |-> "method", name |-> m], [kind |-> "header", size |-> Len(b)] >> \o Chunks(b)

CInit == /\ outq = [c \in Chans |-> <<>>] /\ published = [c \in Chans |-> <<>>]
         /\ asm = [c \in Chans |-> Idle] /\ delivered = [c \in Chans |-> <<>>]
Publish(c, m, b) == /\ Len(published[c]) < MaxMsgs
                    /\ published' = [published EXCEPT ![c] = Append(@, [method |-> m, size |-> Len(b), body |-> b])]
                    /\ outq' = [outq EXCEPT ![c] = @ \o FramesOf(m, b)]
                    /\ UNCHANGED << asm, delivered >>
\* the wire carries the next frame of ANY channel (interleaving), or a heartbeat
Transmit(c) == /\ outq[c] # <<>>
               /\ LET a == Feed(asm[c], Head(outq[c])) IN
                  /\ asm' = [asm EXCEPT ![c] = Settle(a)]
                  /\ delivered' = [delivered EXCEPT ![c] = IF a.mode = "done" THEN Append(@, MessageOf(a)) ELSE @]
               /\ outq' = [outq EXCEPT ![c] = Tail(@)]
               /\ UNCHANGED published
Heartbeat(c) == /\ asm' = [asm EXCEPT ![c] = Feed(@, [kind |-> "heartbeat"])] /\ UNCHANGED << outq, published, delivered >>
CNext == \/ \E c \in Chans, m \in {"Basic.Publish", "Basic.Deliver"}, b \in Bodies : Publish(c, m, b)
         \/ \E c \in Chans : Transmit(c) \/ Heartbeat(c)
CSpec == CInit /\ [][CNext]_cvars /\ \A c \in Chans : WF_cvars(Transmit(c))

IsPrefix(s, t) == Len(s) <= Len(t) /\ SubSeq(t, 1, Len(s)) = s
NoProtocolError == \A c \in Chans : asm[c].mode # "error"
DeliveredIsPrefixOfPublished == \A c \in Chans : IsPrefix(delivered[c], published[c])
BodyNeverOverruns == \A c \in Chans : asm[c].mode = "body" => (asm[c].left > 0 /\ asm[c].left + Len(asm[c].acc) = asm[c].size)
EverythingDelivered == \A c \in Chans : <>[](Len(published[c]) = MaxMsgs => delivered[c] = published[c])
=============================================================================
