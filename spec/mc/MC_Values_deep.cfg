CONSTANTS
  Depth2 = TRUE
SPECIFICATION Spec
INVARIANT DomainAccepted
INVARIANT RoundTrip
INVARIANT TypePreserved
INVARIANT SortedOnWire
INVARIANT OrderIndependent
INVARIANT LegacyOnlySigned
CHECK_DEADLOCK FALSE
