-------------------------------- MODULE Rpc --------------------------------
(***************************************************************************)
(* Beyond the listed properties: the catalogue's RPC metadata in use.      *)
(* A sans-io client drives request/reply matching per channel from two     *)
(* class attributes, "expects a reply" and "valid replies":                *)
(*   Request(c, m)   only when channel c is not waiting; if m expects a    *)
(*                   reply the channel waits for one of m's valid replies  *)
(*   Reply(c, r)     a method arriving on a waiting channel is accepted    *)
(*                   as THE reply iff it is in the valid replies of the    *)
(*                   pending request; anything else is an asynchronous     *)
(*                   method (deliveries, returns, acks, close, blocked)    *)
(* Checked on the design: every request that waits can be answered, a      *)
(* reply never leaves the channel waiting again (replies are terminal),    *)
(* within a class a reply identifies its request uniquely, and the         *)
(* content-carrying methods are exactly the four the protocol defines.     *)
(* Bound to the code by RpcSend / RpcRecv trace events produced by a       *)
(* client that uses ONLY pamqp's class attributes to decide.               *)
(***************************************************************************)
EXTENDS Catalog, TLC

CONSTANTS Chans, MaxSteps

VARIABLES pending,   \* channel -> name of the request waiting for its reply, or ""
          nsteps
rvars == << pending, nsteps >>

Requests == { Methods[i].name : i \in 1..Len(Methods) }
\* Resp, Waits, IsReplyTo are defined in Catalog (shared with the trace specification)

RInit == pending = [c \in Chans |-> ""] /\ nsteps = 0
Request(c, m) == /\ pending[c] = "" /\ nsteps < MaxSteps
                 /\ pending' = [pending EXCEPT ![c] = IF Waits(m) THEN m ELSE ""]
                 /\ nsteps' = nsteps + 1
Reply(c, r) == /\ pending[c] # "" /\ IsReplyTo(r, pending[c]) /\ nsteps < MaxSteps
               /\ pending' = [pending EXCEPT ![c] = ""]
               /\ nsteps' = nsteps + 1
Async(c, r) == /\ pending[c] # "" /\ ~IsReplyTo(r, pending[c]) /\ nsteps < MaxSteps
               /\ nsteps' = nsteps + 1 /\ UNCHANGED pending
RNext == \E c \in Chans, m \in Requests : Request(c, m) \/ Reply(c, m) \/ Async(c, m)
RSpec == RInit /\ [][RNext]_rvars /\ WF_rvars(\E c \in Chans, m \in Requests : Reply(c, m))

\* ---- properties of the metadata ----
EveryWaitCanEnd == \A c \in Chans : pending[c] # "" => Resp(pending[c]) # {}
RepliesAreTerminal == \A m \in Requests : \A r \in Resp(m) : ~Waits(r)
ReplyIdentifiesRequest == \A r \in Requests :
    Cardinality({ m \in Requests : r \in Resp(m) /\ MethodByName(m).cid = MethodByName(r).cid }) <= 1
RepliesStayInClass == \A m \in Requests : \A r \in Resp(m) : MethodByName(r).cid = MethodByName(m).cid
\* a waiting channel is always released by a valid reply (liveness under weak fairness of replies)
EventuallyReleased == \A c \in Chans : (pending[c] # "") ~> (pending[c] = "" \/ nsteps = MaxSteps)
ContentMethods == { "Basic.Publish", "Basic.Return", "Basic.Deliver", "Basic.GetOk" }
=============================================================================
