------------------------------- MODULE Stream -------------------------------
(***************************************************************************)
(* A sender, the wire, and a sans-io receiver that reassembles frames from *)
(* arbitrary socket chunks with the library's contract                     *)
(*     unmarshal(buffer) -> (consumed, channel, frame)                     *)
(*                        | UnmarshalingException  ("wait for more data")  *)
(* Properties C06, C07, C20 (and the stream part of C18).                  *)
(*   Send(i)      frame i of the pool is marshalled onto the wire          *)
(*   Deliver(k)   a socket read ends anywhere: k bytes move wire -> buf    *)
(*   TryDecode    greedy receiver: unmarshal whatever is in buf            *)
(*   PeekRead     size-reading receiver: frame_parts, then exactly         *)
(*                size + 8 bytes (never used for the 8-byte protocol       *)
(*                header, which has no size field)                         *)
(* Pool is a sequence of [f |-> abstract frame, ch |-> channel].           *)
(***************************************************************************)
EXTENDS Frames, TLC

CONSTANTS Pool, MaxSent, Mode          \* Mode \in {"greedy", "peek"}

VARIABLES sent,    \* Seq(index into Pool) marshalled so far
          wire,    \* bytes written, not yet delivered
          buf,     \* receiver buffer
          got,     \* Seq([ch, f]) the receiver has produced
          used,    \* bytes consumed by the receiver so far
          fault    \* the receiver met something that is not "frame" or "wait"
svars == << sent, wire, buf, got, used, fault >>

BytesOf(i) == Marshal(FALSE, Pool[i].f, Pool[i].ch).b
AllSent == Flat([j \in 1..Len(sent) |-> BytesOf(sent[j])])
\* what the receiver is expected to produce for pool frame i
Expected(i) == LET r == Unmarshal(BytesOf(i)) IN [ch |-> r.ch, f |-> r.f]

SInit == sent = <<>> /\ wire = <<>> /\ buf = <<>> /\ got = <<>> /\ used = 0 /\ fault = FALSE

Send(i) == /\ Len(sent) < MaxSent
           /\ sent' = Append(sent, i)
           /\ wire' = wire \o BytesOf(i)
           /\ UNCHANGED << buf, got, used, fault >>

Deliver(k) == /\ k \in 1..Len(wire)
              /\ buf' = buf \o Take(wire, k)
              /\ wire' = Drop(wire, k)
              /\ UNCHANGED << sent, got, used, fault >>

Decode(b) ==      \* one receiver step on the bytes b (a prefix of buf)
    LET r == Unmarshal(b) IN
    CASE r.k = "frame" -> /\ got' = Append(got, [ch |-> r.ch, f |-> r.f])
                          /\ buf' = Drop(buf, r.n)
                          /\ used' = used + r.n
                          /\ UNCHANGED fault
      [] r.k = "incomplete" -> UNCHANGED << buf, got, used, fault >>       \* wait for more data
      [] OTHER -> fault' = TRUE /\ UNCHANGED << buf, got, used >>

TryDecode == Mode = "greedy" /\ buf # <<>> /\ Decode(buf) /\ UNCHANGED << sent, wire >>

PeekRead == /\ Mode = "peek" /\ buf # <<>>
            /\ IF Take(buf, 4) = AMQPLit THEN Decode(buf)        \* protocol header: fixed 8 bytes
               ELSE LET p == FrameParts(buf) IN
                    IF ~p.ok THEN UNCHANGED << buf, got, used, fault >>
                    ELSE LET need == Len32(p.size) + 8 IN
                         IF Len(buf) < need THEN UNCHANGED << buf, got, used, fault >>
                         ELSE Decode(Take(buf, need))
            /\ UNCHANGED << sent, wire >>

DoSend == \E i \in 1..Len(Pool) : Send(i)
DoDeliver == \E k \in 1..Len(wire) : Deliver(k)
SNext == DoSend \/ DoDeliver \/ TryDecode \/ PeekRead

SSpec == SInit /\ [][SNext]_svars /\ WF_svars(TryDecode) /\ WF_svars(PeekRead) /\ WF_svars(DoDeliver)

\* ---- properties ----
\* every byte sent is either consumed, in the buffer, or on the wire, in order
Conservation == Drop(AllSent, used) = buf \o wire
\* the frames produced are exactly the first frames sent, with their channels, in order
FifoPrefix == /\ Len(got) <= Len(sent)
              /\ \A j \in 1..Len(got) : got[j] = Expected(sent[j])
\* the receiver never declares a fault on a stream of valid frames
NoFault == ~fault
\* a frame is produced only when all of its bytes have been delivered
NoEarlyFrame == used <= Len(AllSent) - Len(wire)
ConsumedWithinBuffer == used + Len(buf) + Len(wire) = Len(AllSent)
\* once everything has been delivered and decoded nothing is left over
Quiescent == (wire = <<>> /\ Len(got) = Len(sent)) => buf = <<>>
\* liveness: everything sent is eventually received
AllReceived == <>[](Len(sent) = MaxSent => (Len(got) = MaxSent /\ buf = <<>>))
=============================================================================
