------------------------------- MODULE Content -------------------------------
(***************************************************************************)
(* Beyond the listed properties: content assembly.  A content-carrying     *)
(* method (Basic.Publish / Return / Deliver / GetOk) is followed on the    *)
(* same channel by one content header announcing body_size and by body     *)
(* frames whose lengths sum to body_size (none when it is 0); frames of    *)
(* other channels and heartbeats may interleave.  The assembler is what    *)
(* every sans-io client builds on top of the decoder; it reads only the    *)
(* channel number, the method name, the header's body size and the body    *)
(* frames' bytes.                                                          *)
(*   asm[ch] = [mode |-> "idle" | "header" | "body", method, size, left,   *)
(*              acc]                                                       *)
(*   Feed(ch, f) consumes one decoded frame; Completed(ch, f) tells        *)
(*   whether that frame finished a message.                                *)
(* The design model (MC_Content) lets a sender publish on several channels *)
(* with an arbitrary fair interleaving and frame_max; the trace spec feeds *)
(* the frames decoded by the real code through the same operators.         *)
(***************************************************************************)
EXTENDS Naturals, Sequences, FiniteSets, TLC

ContentMethodNames == { "Basic.Publish", "Basic.Return", "Basic.Deliver", "Basic.GetOk" }
Idle == [mode |-> "idle", method |-> "", size |-> 0, left |-> 0, acc |-> <<>>]

\* f is an abstract decoded frame: [kind |-> "method", name] | [kind |-> "header", size] | [kind |-> "body", b] | [kind |-> "heartbeat"]
Feed(a, f) ==
    CASE f.kind = "heartbeat" -> a
      [] f.kind = "method" -> IF a.mode # "idle" THEN [a EXCEPT !.mode = "error"]
                              ELSE IF f.name \in ContentMethodNames THEN [Idle EXCEPT !.mode = "header", !.method = f.name]
                              ELSE a
      [] f.kind = "header" -> IF a.mode # "header" THEN [a EXCEPT !.mode = "error"]
                              ELSE IF f.size = 0 THEN [a EXCEPT !.mode = "done", !.size = 0]
                              ELSE [a EXCEPT !.mode = "body", !.size = f.size, !.left = f.size]
      [] f.kind = "body" -> IF a.mode # "body" \/ Len(f.b) > a.left \/ Len(f.b) = 0 THEN [a EXCEPT !.mode = "error"]
                            ELSE LET l == a.left - Len(f.b) IN
                                 [a EXCEPT !.acc = @ \o f.b, !.left = l, !.mode = IF l = 0 THEN "done" ELSE "body"]
      [] OTHER -> [a EXCEPT !.mode = "error"]

\* after a message completed the channel is idle again; the message is [method, size, body]
MessageOf(a) == [method |-> a.method, size |-> a.size, body |-> a.acc]
Settle(a) == IF a.mode = "done" THEN Idle ELSE a
=============================================================================
