#!/usr/bin/env python3
"""Prints the markdown table of seeded changes (seeded/*/meta.json) for DESIGN.md section 15.2"""
import glob
import json
import os
VERIF = os.path.dirname(os.path.dirname(os.path.abspath(__file__)))
print('| seeded change | property | what it needs to manifest (from the author\'s notes) | caught by (tier) | clauses |')
print('|---|---|---|---|---|')
for d in sorted(glob.glob(os.path.join(VERIF, 'seeded', '*'))):
    m = json.load(open(os.path.join(d, 'meta.json')))
    notes = ' '.join(m.get('needs_to_manifest', '').split())
    first = m.get('summary') or notes[:230]
    r = m['check_result']
    if m.get('judged_by'):
        r = dict(m['check_result_judged_by'])
        m = dict(m, property='%s (violates %s)' % (m['property'], m['judged_by']))
        r['_by'] = m['judged_by'] if False else None
    print('| `%s` | %s | %s | %s | %s |' % (os.path.basename(d), m['property'], first.replace('|', '/'),
                                           ('./check %s (%s)' % (m.get('judged_by') or m['property'].split()[0], r['tier'])) if r['caught'] else 'MISSED',
                                           ', '.join(r['clauses'][:4])))
