#!/usr/bin/env python3
"""Prints the markdown table of seeded changes (seeded/*/meta.json) for DESIGN.md section 15.2"""
import glob
import json
import os
VERIF = os.path.dirname(os.path.dirname(os.path.abspath(__file__)))
print('| seeded change | property | what it needs to manifest (from the author\'s notes) | caught by (tier) | clauses |')
print('|---|---|---|---|---|')
for d in sorted(glob.glob(os.path.join(VERIF, 'seeded', '*'))):
    m = json.load(open(os.path.join(d, 'meta.json')))
    notes = ' '.join(m.get('needs_to_manifest', '').split())
    first = m.get('summary') or notes[:230]
    r = m['check_result']
    print('| `%s` | %s | %s | %s | %s |' % (os.path.basename(d), m['property'], first.replace('|', '/'),
                                           ('./check %s (%s)' % (m['property'], r['tier'])) if r['caught'] else 'MISSED',
                                           ', '.join(r['clauses'][:4])))
