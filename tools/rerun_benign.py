#!/usr/bin/env python3
"""False-alarm regression: every kept BEHAVIOUR-PRESERVING refactoring (benign/<name>/patch.diff, written by independent
sub-agents who were given the 20 property statements and asked to change nothing they speak about) is applied to a scratch
copy of /repo (outside /repo and /verif) and the checks listed in benign/jobs.txt are run with VERIF_REPO=<copy>; every one
must exit 0.   usage: tools/rerun_benign.py [names...] [-j N] [--tier T]"""
import concurrent.futures as cf
import os
import shutil
import subprocess
import sys
import tempfile

VERIF = os.path.dirname(os.path.dirname(os.path.abspath(__file__)))


def one(job, tier):
    name, prop = job
    tmp = tempfile.mkdtemp(prefix='pamqp_benign_')
    try:
        subprocess.run(['git', '-C', '/repo', 'archive', '--format=tar', 'HEAD', '-o', os.path.join(tmp, 'r.tar')], check=True)
        subprocess.run(['tar', '-xf', os.path.join(tmp, 'r.tar'), '-C', tmp], check=True)
        p = subprocess.run(['patch', '-p1', '-d', tmp, '-i', os.path.join(VERIF, 'benign', name, 'patch.diff')], stdout=subprocess.PIPE,
                           stderr=subprocess.STDOUT, text=True)
        if p.returncode != 0:
            return name, prop, 'PATCH-FAILED', p.stdout[-300:]
        r = subprocess.run([os.path.join(VERIF, 'check'), prop, '--tier', tier], env=dict(os.environ, VERIF_REPO=tmp), stdout=subprocess.PIPE,
                           stderr=subprocess.STDOUT, text=True)
        return name, prop, 'QUIET' if r.returncode == 0 else 'ALARM rc=%d' % r.returncode, '' if r.returncode == 0 else r.stdout[-400:]
    finally:
        shutil.rmtree(tmp, ignore_errors=True)


def main():
    args = [a for a in sys.argv[1:] if not a.startswith('-')]
    tier = sys.argv[sys.argv.index('--tier') + 1] if '--tier' in sys.argv else 'quick'
    jobs_n = int(sys.argv[sys.argv.index('-j') + 1]) if '-j' in sys.argv else 2
    args = [a for a in args if a not in (tier, str(jobs_n))]
    jobs = [l.split() for l in open(os.path.join(VERIF, 'benign', 'jobs.txt')) if l.strip()]
    if args:
        jobs = [j for j in jobs if j[0] in args]
    bad = 0
    with cf.ThreadPoolExecutor(max_workers=jobs_n) as ex:
        for name, prop, res, tail in ex.map(lambda j: one(j, tier), jobs):
            print('%-4s %s %s' % (name, prop, res), flush=True)
            if res != 'QUIET':
                bad += 1
                print(tail)
    print('%d runs, %d alarms' % (len(jobs), bad))
    return 1 if bad else 0


if __name__ == '__main__':
    sys.exit(main())
