#!/usr/bin/env python3
"""Confirms a seeded change produced by a sub-agent and runs the property's check against it.
usage: tools/seeded.py <worktree dir> <property> [name] [--tier quick|thorough]
 1. in the worktree: change applied -> repo test-suite passes and demo fails; change stashed -> demo passes
 2. ./check <property> with VERIF_REPO=<worktree> must exit 1 with a VIOLATION line
 3. keeps patch.diff, demo.py, meta.json under /verif/seeded/<name>/"""
import json
import os
import shutil
import subprocess
import sys

VERIF = os.path.dirname(os.path.dirname(os.path.abspath(__file__)))
PY = '/venv/bin/python'


def sh(cmd, cwd=None, env=None):
    p = subprocess.run(cmd, cwd=cwd, env=env, shell=isinstance(cmd, str), stdout=subprocess.PIPE, stderr=subprocess.STDOUT, text=True)
    return p.returncode, p.stdout


def main():
    wt, prop = sys.argv[1], sys.argv[2]
    name = sys.argv[3] if len(sys.argv) > 3 and not sys.argv[3].startswith('--') else prop.lower() + '_' + os.path.basename(wt).lower()
    tier = sys.argv[sys.argv.index('--tier') + 1] if '--tier' in sys.argv else 'quick'
    seed = os.path.join(wt, '_seed')
    rc, out = sh('git diff --stat -- pamqp', cwd=wt)
    assert out.strip(), 'no change applied in worktree'
    rc_t, out_t = sh([PY, '-m', 'pytest', '-q', '-p', 'no:cacheprovider', '-x'], cwd=wt)
    tests_ok = rc_t == 0 and '846 passed' in out_t
    rc_d, out_d = sh([PY, os.path.join(seed, 'demo.py')], cwd=wt)
    # (git stash is shared between worktrees: use the patch itself to remove / re-apply the change)
    sh('git diff -- pamqp > /tmp/wt/.cur_%s.diff' % os.path.basename(wt), cwd=wt)
    sh('git apply -R /tmp/wt/.cur_%s.diff' % os.path.basename(wt), cwd=wt)
    try:
        rc_c, out_c = sh([PY, os.path.join(seed, 'demo.py')], cwd=wt)
    finally:
        sh('git apply /tmp/wt/.cur_%s.diff' % os.path.basename(wt), cwd=wt)
    confirmed = tests_ok and rc_d != 0 and rc_c == 0
    env = dict(os.environ)
    env['VERIF_REPO'] = wt
    rc_k, out_k = sh([os.path.join(VERIF, 'check'), prop, '--tier', tier], cwd=VERIF, env=env)
    caught = rc_k == 1 and ('VIOLATION property=%s' % prop) in out_k
    clauses = sorted(set(l.split('clause=')[1].split()[0] for l in out_k.splitlines() if 'clause=' in l))
    dst = os.path.join(VERIF, 'seeded', name)
    os.makedirs(dst, exist_ok=True)
    sh('git diff -- pamqp > %s' % os.path.join(dst, 'patch.diff'), cwd=wt)
    shutil.copy(os.path.join(seed, 'demo.py'), os.path.join(dst, 'demo.py'))
    notes = open(os.path.join(seed, 'notes.md')).read() if os.path.exists(os.path.join(seed, 'notes.md')) else ''
    meta = {'property': prop, 'origin': 'independent sub-agent given only the property text and a scratch worktree',
            'needs_to_manifest': notes, 'confirmed': {'repo_tests_pass_with_change': tests_ok, 'demo_fails_with_change': rc_d != 0,
                                                      'demo_passes_without_change': rc_c == 0},
            'ran': ['pytest in the worktree with the change', 'demo.py with / without the change',
                    'VERIF_REPO=<worktree> ./check %s --tier %s' % (prop, tier)],
            'check_result': {'tier': tier, 'exit': rc_k, 'caught': caught, 'clauses': clauses[:8]}}
    if os.path.exists(os.path.join(dst, 'meta.json')):      # keep what was written by hand about this change
        try:
            old = json.load(open(os.path.join(dst, 'meta.json')))
            for k in ('summary', 'first_run'):
                if k in old:
                    meta[k] = old[k]
        except Exception:  # noqa
            pass
    json.dump(meta, open(os.path.join(dst, 'meta.json'), 'w'), indent=1)
    print('%-28s confirmed=%s caught=%s rc=%d clauses=%s' % (name, confirmed, caught, rc_k, ','.join(clauses[:5])))
    if not caught:
        print(out_k[-600:])


if __name__ == '__main__':
    main()
