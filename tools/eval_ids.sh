#!/bin/sh
# usage: tools/eval_ids.sh <round> <worktree ids like C16a C16b ...>  (property = first three characters of the id)
R=$1; shift
cd "$(dirname "$(readlink -f "$0")")/.."
for k in "$@"; do
  p=$(echo $k | cut -c1-3)
  [ -d /tmp/wt/$k/_seed ] || { echo "$k: no _seed"; continue; }
  timeout 1500 python3 tools/seeded.py /tmp/wt/$k $p s${R}_$k 2>&1 | grep -v Truncating | tail -2 | cut -c1-260
done
