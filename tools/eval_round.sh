#!/bin/sh
# usage: tools/eval_round.sh <round number> [properties...]   -- evaluates /tmp/wt/<Cxx> worktrees into seeded/s<round>_<Cxx>
R=$1; shift
PROPS=${*:-C01 C02 C03 C04 C05 C06 C07 C08 C09 C10 C11 C12 C13 C14 C15 C16 C17 C18 C19 C20}
cd "$(dirname "$(readlink -f "$0")")/.."
for p in $PROPS; do
  [ -d /tmp/wt/$p/_seed ] || { echo "$p: no _seed"; continue; }
  timeout 1500 python3 tools/seeded.py /tmp/wt/$p $p s${R}_$p 2>&1 | grep -v Truncating | tail -2 | cut -c1-260
done
