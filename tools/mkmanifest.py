#!/usr/bin/env python3
"""Regenerates MANIFEST.json from harness/registry.py (claimed checks) — run by hand after registering a property."""
import json
import os
import sys
VERIF = os.path.dirname(os.path.dirname(os.path.abspath(__file__)))
sys.path.insert(0, os.path.join(VERIF, 'harness'))
import registry  # noqa: E402

props = [json.loads(l) for l in open(os.path.join(VERIF, 'properties.jsonl'))]
claimed = [p for p in props if p['id'] in registry.PROPS and registry.PROPS[p['id']].get('claimed', True)]
NA = getattr(registry, 'NOT_APPLICABLE', {})
hooks_commits = getattr(registry, 'HOOK_COMMITS', [])
m = {
    'version': 1,
    'setup_cmd': 'cd /verif && /venv/bin/python harness/setup_check.py',
    'hooks': {
        'guard': 'PAMQP_VERIF',
        'enable': 'no source hooks are needed: PAMQP_VERIF=1 only switches on harness-side observers '
                  '(sys.setprofile step counter, settrace scheduler) inside the check processes; '
                  'checks import pamqp from $VERIF_REPO (default /repo) working tree',
        'baseline_off_cmd': 'cd /repo && /venv/bin/python -m pytest -q -p no:cacheprovider --timeout=900',
        'source_commits': hooks_commits,
        'add_only': True,
    },
    'engines': [
        {'name': 'TLC 1.8 model checker', 'path': '/opt/veriftools/tla/tla2tools.jar',
         'serves_properties': [p['id'] for p in claimed],
         'kind_free_text': 'explicit TLA+ specification (spec/*.tla): exhaustive model checking of the design '
                           '(spec/mc), trace validation of executions recorded from the real pamqp (spec/trace), '
                           'and TLC-generated behaviours replayed into the real code'}],
    'checks': [],
    'notes': 'See DESIGN.md. ./check <id> --tier quick|thorough; exit 2 = machinery failure (never a verdict).',
    'not_applicable': [{'property_id': p['id'], 'reason': NA.get(p['id'], 'check not built yet')}
                       for p in props if p not in claimed],
}
def level_text(pid, c):
    """what the check gives, in our own words (generated from the registry so that it cannot drift)"""
    mcs = []
    for tier in ('quick', 'thorough'):
        for mc in c.get('mc', lambda t: [])(tier):
            name = mc.get('cfg') or mc['module']
            if mc.get('expect_violation'):
                name += ' (refuted on purpose: ' + str(mc['expect_violation']) + ')'
            if name not in mcs:
                mcs.append(name)
    gen = ' TLC also GENERATES inputs / histories / schedules / conversations that the drivers replay into the real code.' if 'gen' in c else ''
    return ('Bounded-exhaustive TLC model checking of the design (' + ', '.join(mcs) + ': every state within small constants) shows that the '
            'specification itself has the property and is not vacuous; the binding to the code is trace validation: every call the '
            'drivers make on the real pamqp is recorded and TLC judges each recorded event against the explicit TLA+ specification '
            '(spec/trace/Trace.tla, total verdicts naming the failing clause).' + gen + ' This is sampling of the implementation, '
            'directed by boundaries, the specification\'s own state graph and the input families of DESIGN.md 12.6 -- not a proof '
            'for all inputs; what is explored per run is in the evidence file. Events: ' + c.get('rule', ''))


for p in claimed:
    c = registry.PROPS[p['id']]
    m['checks'].append({
        'property_id': p['id'],
        'quick_cmd': './check %s --tier quick' % p['id'],
        'thorough_cmd': './check %s --tier thorough' % p['id'],
        'evidence_file': '/verif/evidence/%s.json' % p['id'],
        'replay_cmd_template': './check --replay {path}',
        'engine': 'TLC 1.8 model checker',
        'level_claimed': {'category': 'model_checking',
                          'text': c.get('level_text') or level_text(p['id'], c),
                          'design_ref': 'DESIGN.md section 6, ' + p['id']},
        'level_note': c.get('level_note', 'Trusted: TLC, the CommunityModules JSON reader, harness/abstraction.py '
                                          '(projection of Python values), the hand-written TLA+ reference codec.'),
        'technique': c.get('technique', 'TLA+ specification + TLC: model checking of the design and trace validation of '
                                        'recorded executions of the real code'),
    })
json.dump(m, open(os.path.join(VERIF, 'MANIFEST.json'), 'w'), indent=1)
print(len(m['checks']), 'checks,', len(m['not_applicable']), 'not applicable')
