#!/usr/bin/env python3
"""Regenerates MANIFEST.json from harness/registry.py (claimed checks) — run by hand after registering a property."""
import json
import os
import sys
VERIF = os.path.dirname(os.path.dirname(os.path.abspath(__file__)))
sys.path.insert(0, os.path.join(VERIF, 'harness'))
import registry  # noqa: E402

props = [json.loads(l) for l in open(os.path.join(VERIF, 'properties.jsonl'))]
claimed = [p for p in props if p['id'] in registry.PROPS and registry.PROPS[p['id']].get('claimed', True)]
NA = getattr(registry, 'NOT_APPLICABLE', {})
hooks_commits = getattr(registry, 'HOOK_COMMITS', [])
m = {
    'version': 1,
    'setup_cmd': 'cd /verif && /venv/bin/python harness/setup_check.py',
    'hooks': {
        'guard': 'PAMQP_VERIF',
        'enable': 'no source hooks are needed: PAMQP_VERIF=1 only switches on harness-side observers '
                  '(sys.setprofile step counter, settrace scheduler) inside the check processes; '
                  'checks import pamqp from $VERIF_REPO (default /repo) working tree',
        'baseline_off_cmd': 'cd /repo && /venv/bin/python -m pytest -q -p no:cacheprovider --timeout=900',
        'source_commits': hooks_commits,
        'add_only': True,
    },
    'engines': [
        {'name': 'TLC 1.8 model checker', 'path': '/opt/veriftools/tla/tla2tools.jar',
         'serves_properties': [p['id'] for p in claimed],
         'kind_free_text': 'explicit TLA+ specification (spec/*.tla): exhaustive model checking of the design '
                           '(spec/mc), trace validation of executions recorded from the real pamqp (spec/trace), '
                           'and TLC-generated behaviours replayed into the real code'}],
    'checks': [],
    'notes': 'See DESIGN.md. ./check <id> --tier quick|thorough; exit 2 = machinery failure (never a verdict).',
    'not_applicable': [{'property_id': p['id'], 'reason': NA.get(p['id'], 'check not built yet')}
                       for p in props if p not in claimed],
}
for p in claimed:
    c = registry.PROPS[p['id']]
    m['checks'].append({
        'property_id': p['id'],
        'quick_cmd': './check %s --tier quick' % p['id'],
        'thorough_cmd': './check %s --tier thorough' % p['id'],
        'evidence_file': '/verif/evidence/%s.json' % p['id'],
        'replay_cmd_template': './check --replay {path}',
        'engine': 'TLC 1.8 model checker',
        'level_claimed': {'category': 'model_checking',
                          'text': c.get('level_text', ''),
                          'design_ref': 'DESIGN.md section 6, ' + p['id']},
        'level_note': c.get('level_note', 'Trusted: TLC, the CommunityModules JSON reader, harness/abstraction.py '
                                          '(projection of Python values), the hand-written TLA+ reference codec.'),
        'technique': c.get('technique', 'TLA+ specification + TLC: model checking of the design and trace validation of '
                                        'recorded executions of the real code'),
    })
json.dump(m, open(os.path.join(VERIF, 'MANIFEST.json'), 'w'), indent=1)
print(len(m['checks']), 'checks,', len(m['not_applicable']), 'not applicable')
