#!/usr/bin/env python3
"""Regression over every kept seeded change: apply seeded/<name>/patch.diff to a scratch copy of /repo (outside
/repo and /verif), run the property's check with VERIF_REPO=<copy>, expect VIOLATION.  usage: tools/rerun_seeded.py [names...] [--tier T] [-j N]"""
import concurrent.futures as cf
import glob
import json
import os
import shutil
import subprocess
import sys
import tempfile

VERIF = os.path.dirname(os.path.dirname(os.path.abspath(__file__)))


def one(d, tier):
    meta = json.load(open(os.path.join(d, 'meta.json')))
    prop = meta.get('judged_by') or meta['property']     # (a change outside its own property's domain is run against the one it violates)
    tmp = tempfile.mkdtemp(prefix='pamqp_seed_')
    try:
        subprocess.run(['git', '-C', '/repo', 'archive', '--format=tar', 'HEAD', '-o', os.path.join(tmp, 'r.tar')], check=True)
        subprocess.run(['tar', '-xf', os.path.join(tmp, 'r.tar'), '-C', tmp], check=True)
        p = subprocess.run(['git', 'apply', '--unsafe-paths', '--directory=' + tmp, os.path.join(d, 'patch.diff')],
                           cwd='/', stdout=subprocess.PIPE, stderr=subprocess.STDOUT, text=True)
        if p.returncode != 0:
            p = subprocess.run(['patch', '-p1', '-d', tmp, '-i', os.path.join(d, 'patch.diff')], stdout=subprocess.PIPE,
                               stderr=subprocess.STDOUT, text=True)
            if p.returncode != 0:
                return os.path.basename(d), prop, 'PATCH-FAILED', p.stdout[-300:]
        env = dict(os.environ, VERIF_REPO=tmp)
        r = subprocess.run([os.path.join(VERIF, 'check'), prop, '--tier', tier], env=env, stdout=subprocess.PIPE,
                           stderr=subprocess.STDOUT, text=True)
        caught = r.returncode == 1 and ('VIOLATION property=%s' % prop) in r.stdout
        return os.path.basename(d), prop, 'CAUGHT' if caught else 'MISSED rc=%d' % r.returncode, '' if caught else r.stdout[-300:]
    finally:
        shutil.rmtree(tmp, ignore_errors=True)


def main():
    args = [a for a in sys.argv[1:] if not a.startswith('-')]
    tier = sys.argv[sys.argv.index('--tier') + 1] if '--tier' in sys.argv else 'quick'
    jobs = int(sys.argv[sys.argv.index('-j') + 1]) if '-j' in sys.argv else 2
    args = [a for a in args if a not in (tier, str(jobs))]
    dirs = sorted(glob.glob(os.path.join(VERIF, 'seeded', '*')))
    if args:
        dirs = [d for d in dirs if os.path.basename(d) in args]
    bad = 0
    with cf.ThreadPoolExecutor(max_workers=jobs) as ex:
        for name, prop, res, tail in ex.map(lambda d: one(d, tier), dirs):
            print('%-10s %s %s' % (name, prop, res), flush=True)
            if res != 'CAUGHT':
                bad += 1
                print(tail)
    print('%d seeded changes, %d not caught' % (len(dirs), bad))
    return 1 if bad else 0


if __name__ == '__main__':
    sys.exit(main())
