"""Executors: one function per trace action.  Each runs the real pamqp and
returns the event fields recorded at the call's return (error paths too).
Drivers, the S2C replayer and --replay all go through these."""
import common
from abstraction import abstract, a_exc, a_frame

common.load_pamqp()
from pamqp import decode, encode, exceptions, frame  # noqa: E402

UE = exceptions.UnmarshalingException


def do_unmarshal(data):
    try:
        n, ch, f = frame.unmarshal(data)
        return {'r': 'ok', 'n': n, 'ch': ch, 'f': a_frame(f)}, f
    except Exception as e:  # noqa
        return a_exc(e, UE), None


def encode_value(v, pos='top'):
    try:
        if pos == 'top':
            b = encode.encode_table_value(v)
        elif pos == 'table':
            b = encode.field_table(v)
        else:
            b = encode.field_array(v)
        out = {'r': 'ok', 'b': list(b)}
    except Exception as e:  # noqa
        return {'pos': pos, 'in': abstract(v), 'out': a_exc(e), 'dec': {'r': 'skip'}}
    try:
        if pos == 'top':
            n, w = decode.embedded_value(b)
        elif pos == 'table':
            n, w = decode.field_table(b)
        else:
            n, w = decode.field_array(b)
        dec = {'r': 'ok', 'n': n, 'v': abstract(w)}
    except Exception as e:  # noqa
        dec = a_exc(e)
    return {'pos': pos, 'in': abstract(v), 'out': out, 'dec': dec}


def roundtrip(f, ch):
    """frame.marshal then frame.unmarshal of the produced bytes"""
    fin = a_frame(f)
    try:
        b = frame.marshal(f, ch)
        out = {'r': 'ok', 'b': list(b)}
    except Exception as e:  # noqa
        return {'in': fin, 'ch': ch, 'out': a_exc(e), 'un': {'r': 'skip'}, 're': {'r': 'skip'}}
    un, g = do_unmarshal(b)
    re_ = {'r': 'skip'}
    if g is not None:
        try:
            re_ = {'r': 'ok', 'b': list(frame.marshal(g, ch))}
        except Exception as e:  # noqa
            re_ = a_exc(e)
    return {'in': fin, 'ch': ch, 'out': out, 'un': un, 're': re_}


def _call(fn, *a):
    try:
        return {'r': 'ok', 'b': list(fn(*a))}
    except Exception as e:  # noqa
        return a_exc(e)


def toggle(mode):
    if mode == 'noarg':
        encode.support_deprecated_rabbitmq()
    else:
        encode.support_deprecated_rabbitmq(mode == 'true')
    return {'arg': mode}


def encode_fixed(fn, x):
    return {'fn': fn, 'in': abstract(x), 'out': _call(getattr(encode, fn), x)}


def marshal_part(obj):
    """Frame.marshal() (arguments only) or Basic.Properties.marshal() called directly"""
    from pamqp import base
    from abstraction import a_props
    if isinstance(obj, base.BasicProperties):
        return {'kind': 'props', 'in': {'cls': 'Basic.Properties', 'props': a_props(obj)}, 'out': _call(obj.marshal)}
    return {'kind': 'method', 'in': a_frame(obj), 'out': _call(obj.marshal)}


def encode_arg(ty, v):
    return {'ty': ty, 'in': abstract(v), 'out': _call(encode.by_type, v, ty)}
