"""Executors: one function per trace action.  Each runs the real pamqp and
returns the event fields recorded at the call's return (error paths too).
Drivers, the S2C replayer and --replay all go through these."""
import common
from abstraction import abstract, a_exc, a_frame, as_int

common.load_pamqp()
from pamqp import decode, encode, exceptions, frame  # noqa: E402

UE = exceptions.UnmarshalingException


def trash(obj, depth=0):
    """The caller owns what a decode returned: overwrite every attribute and container of it.  If anything of it is
    shared with a later result (a cached object, a shared default, a module-level template) that later result is wrong."""
    try:
        from pamqp import base, body, header
        if isinstance(obj, header.ProtocolHeader):
            obj.major_version, obj.minor_version, obj.revision = 201, 202, 203
        elif isinstance(obj, body.ContentBody):
            obj.value = b'\x00trashed'
        elif isinstance(obj, header.ContentHeader):
            obj.body_size, obj.weight = 987654321, 77
            trash(obj.properties, depth + 1)
        elif isinstance(obj, (base.Frame, base.BasicProperties)) and depth < 3:
            for a in type(obj).__slots__:
                x = getattr(obj, a, None)
                if isinstance(x, dict):
                    for y in list(x.values()):
                        if isinstance(y, dict):
                            y['x-trashed'] = 1
                        elif isinstance(y, list):
                            y.append('x-trashed')
                    x['x-trashed'] = 1
                elif isinstance(x, list):
                    x.append('x-trashed')
                else:
                    try:
                        setattr(obj, a, 'trashed' if isinstance(x, str) or x is None else (not x if isinstance(x, bool) else 41))
                    except Exception:  # noqa
                        pass
    except Exception:  # noqa
        pass


def do_unmarshal(data):
    """frame.unmarshal under the decoder-step budget: a decoder that does not terminate is recorded
    as {'r': 'budget'} instead of hanging the driver"""
    import observers
    res, exc, steps, peak = observers.with_budget(frame.unmarshal, bytes(data))
    if isinstance(exc, observers.BudgetExceeded):
        return {'r': 'budget'}, None
    if exc is not None:
        return a_exc(exc, UE), None
    if not (isinstance(res, tuple) and len(res) == 3):
        return {'r': 'exc', 'type': 'BadResult:' + type(res).__name__, 'lib': False, 'site': 'frame.unmarshal'}, None
    return {'r': 'ok', 'n': as_int(res[0]), 'ch': as_int(res[1]), 'f': a_frame(res[2])}, res[2]


class DidNotReturn(Exception):
    """a library call was stopped by the step / wall-clock budget"""


def unmarshal3(b):
    """frame.unmarshal(b) for drivers that only USE the result: budgeted, the library's own exception re-raised"""
    import observers
    res, exc, _s, _p = observers.with_budget(frame.unmarshal, bytes(b))
    if isinstance(exc, observers.BudgetExceeded):
        raise DidNotReturn('frame.unmarshal did not return within its budget')
    if exc is not None:
        raise exc
    return res


def encode_value(v, pos='top'):
    fn = {'top': encode.encode_table_value, 'table': encode.field_table, 'array': encode.field_array}[pos]
    import observers
    pre = abstract(v)
    try:
        with observers.wall():
            b = fn(v)
        out = _bytes_result(b)
        if out['r'] != 'ok':
            raise TypeError('encoder returned ' + type(b).__name__)
    except observers.GiveUp:
        raise
    except observers.BudgetExceeded:
        return {'pos': pos, 'in': pre, 'out': dict(observers.HANG), 'dec': {'r': 'skip'}, 'out2': {'r': 'skip'}, 'post': abstract(v)}
    except Exception as e:  # noqa
        return {'pos': pos, 'in': pre, 'out': a_exc(e), 'dec': {'r': 'skip'}, 'out2': {'r': 'skip'}, 'post': abstract(v)}
    out2 = _call(fn, v)
    post = abstract(v)
    dfn = {'top': decode.embedded_value, 'table': decode.field_table, 'array': decode.field_array}[pos]
    res, exc, _steps, _peak = observers.with_budget(dfn, b)      # (a decoder that does not return must not hang the driver)
    if isinstance(exc, observers.BudgetExceeded):
        dec = dict(observers.HANG)
    elif exc is not None:
        dec = a_exc(exc)
    else:
        try:
            n, w = res
            dec = {'r': 'ok', 'n': n, 'v': abstract(w)}
        except Exception as e:  # noqa
            dec = a_exc(e)
    return {'pos': pos, 'in': pre, 'out': out, 'dec': dec, 'out2': out2, 'post': post}


def roundtrip(f, ch):
    """frame.marshal then frame.unmarshal of the produced bytes"""
    fin = a_frame(f)
    try:
        b = frame.marshal(f, ch)
        out = _bytes_result(b)
        if out['r'] != 'ok':
            raise TypeError('marshal returned ' + type(b).__name__)
    except Exception as e:  # noqa
        return {'in': fin, 'ch': ch if isinstance(ch, int) and abs(ch) < 2 ** 31 else -99, 'out': a_exc(e),
                'un': {'r': 'skip'}, 're': {'r': 'skip'}, 'out2': {'r': 'skip'}, 'post': a_frame(f)}
    out2 = _call(frame.marshal, f, ch)
    post = a_frame(f)
    un, g = do_unmarshal(b)
    re_ = {'r': 'skip'}
    if g is not None:
        try:
            re_ = {'r': 'ok', 'b': list(frame.marshal(g, ch))}
        except Exception as e:  # noqa
            re_ = a_exc(e)
    trash(g)
    return {'in': fin, 'ch': int(ch), 'out': out, 'un': un, 're': re_, 'out2': out2, 'post': post}


def _bytes_result(r):
    if isinstance(r, (bytes, bytearray, memoryview)):
        return {'r': 'ok', 'b': list(bytes(r))}
    return {'r': 'exc', 'type': 'BadResult:' + type(r).__name__, 'lib': False, 'site': ''}


def _call(fn, *a):
    import observers
    try:
        with observers.wall():
            return _bytes_result(fn(*a))
    except observers.GiveUp:
        raise
    except observers.BudgetExceeded:
        return dict(observers.HANG)
    except Exception as e:  # noqa
        return a_exc(e)


def toggle(mode):
    if mode == 'noarg':
        encode.support_deprecated_rabbitmq()
    else:
        encode.support_deprecated_rabbitmq(mode == 'true')
    return {'arg': mode}


def encode_fixed(fn, x):
    return {'fn': fn, 'in': abstract(x), 'out': _call(getattr(encode, fn), x)}


def marshal_part(obj):
    """Frame.marshal() (arguments only) or Basic.Properties.marshal() called directly"""
    from pamqp import base
    from abstraction import a_props
    if isinstance(obj, base.BasicProperties):
        return {'kind': 'props', 'in': {'cls': 'Basic.Properties', 'props': a_props(obj)}, 'out': _call(obj.marshal)}
    return {'kind': 'method', 'in': a_frame(obj), 'out': _call(obj.marshal)}


def encode_arg(ty, v):
    out = _call(encode.by_type, v, ty)
    dec = {'r': 'skip'}
    if out['r'] == 'ok':
        import observers
        try:
            with observers.wall():
                n, w = decode.by_type(bytes(out['b']), {'table': 'table'}.get(ty, ty))
            dec = {'r': 'ok', 'n': as_int(n), 'v': abstract(w)}
        except observers.GiveUp:
            raise
        except observers.BudgetExceeded:
            dec = dict(observers.HANG)
        except Exception as e:  # noqa
            dec = a_exc(e)
    return {'ty': ty, 'in': abstract(v), 'out': out, 'dec': dec}


# ---------------------------------------------------------------------------
# decoding arbitrary bytes
# ---------------------------------------------------------------------------
import observers  # noqa: E402


def unmarshal(data, budget=True, memory=False, extra=None):
    """frame.unmarshal(data); with budget: under the decoder-step budget (C08)"""
    data = bytes(data)
    ev = {'b': list(data)}
    if budget:
        res, exc, steps, peak = observers.with_budget(frame.unmarshal, data, memory)
        ev['steps'], ev['peak'], ev['bound'] = steps, peak, observers.impl_bound(len(data))
        if isinstance(exc, observers.BudgetExceeded):
            ev['out'] = {'r': 'budget'}
        elif exc is not None:
            ev['out'] = a_exc(exc, UE)
        else:
            if isinstance(res, tuple) and len(res) == 3:
                ev['out'] = {'r': 'ok', 'n': as_int(res[0]), 'ch': as_int(res[1]), 'f': a_frame(res[2])}
                trash(res[2])
            else:
                ev['out'] = {'r': 'exc', 'type': 'BadResult:' + type(res).__name__, 'lib': False, 'site': 'frame.unmarshal'}
    else:
        ev['out'], _ = do_unmarshal(data)
    if extra:
        ev.update(extra)
    return ev


_RXBUF = bytearray()


def cutset(data, cuts=None, reuse=False):
    """every strict prefix (or the given cut points) of a complete frame; with reuse: the prefixes are presented in ONE
    mutable receive buffer that is refilled in place (what a client with a preallocated bytearray does)"""
    data = bytes(data)
    full = None if reuse else do_unmarshal(data)[0]     # (with reuse NOTHING but the one buffer object is ever decoded)
    res = []
    for k in (range(len(data)) if cuts is None else cuts):
        if reuse:
            _RXBUF[:] = data[:k]
            try:
                r3 = frame.unmarshal(_RXBUF)
                o = {'r': 'ok', 'n': as_int(r3[0]), 'ch': as_int(r3[1])}
            except Exception as e:  # noqa
                o = a_exc(e, UE)
        else:
            o, _ = do_unmarshal(data[:k])
        r = {'k': k, 'r': o['r'], 'type': o.get('type', ''), 'lib': bool(o.get('lib', False)), 'n': o.get('n', -1)}
        res.append(r)
    if reuse:
        # (the library decodes field tables from bytes only -- a bytearray slice is not hashable as a type tag -- so the
        # complete frame is judged from bytes; what matters here is what the mutable buffer leaves behind)
        full = do_unmarshal(data)[0]
        _RXBUF[:] = data        # the complete frame last: it is what the next cut set finds in the buffer
        try:
            frame.unmarshal(_RXBUF)
        except Exception:  # noqa
            pass
    return {'b': list(data), 'full': {'r': full['r'], 'n': full.get('n', -1)}, 'cuts': res, 'via': 'bytearray' if reuse else 'bytes'}


def frame_parts(data):
    data = bytes(data)
    try:
        r = frame.frame_parts(data)
        ok = isinstance(r, tuple) and len(r) == 3
        t, c, s = r if ok else (None, None, None)
        out = {'r': 'ok', 'shape': ok,
               'type': t if isinstance(t, int) else -1, 'ch': c if isinstance(c, int) else -1,
               'size': list(s.to_bytes(4, 'big')) if isinstance(s, int) and 0 <= s < 2 ** 32 else [],
               'size_none': s is None}
    except Exception as e:  # noqa
        out = a_exc(e, UE)
    return {'b': list(data), 'out': out}


def decode_value(data, pos='top'):
    data = bytes(data)
    fn = {'top': decode.embedded_value, 'table': decode.field_table, 'array': decode.field_array}[pos]
    res, exc, steps, peak = observers.with_budget(fn, data)
    if isinstance(exc, observers.BudgetExceeded):
        out = {'r': 'budget'}
    elif exc is not None:
        out = a_exc(exc, UE)
    else:
        out = {'r': 'ok', 'n': as_int(res[0]), 'v': abstract(res[1])} if isinstance(res, tuple) and len(res) == 2 else \
            {'r': 'exc', 'type': 'BadResult', 'lib': False, 'site': ''}
    return {'pos': pos, 'b': list(data), 'out': out, 'steps': steps}


# ---------------------------------------------------------------------------
# construction / validation (C13), mapping protocol (C19)
# ---------------------------------------------------------------------------
def construct(cls_name, kwargs):
    from abstraction import class_by_name
    k = class_by_name(cls_name)
    try:
        o = k(**kwargs)
        out = {'r': 'ok', 'f': a_frame(o)}
    except Exception as e:  # noqa
        out = a_exc(e)
    return {'cls': cls_name, 'args': {n: abstract(v) for n, v in kwargs.items()} or {'_': {'t': 'none'}}, 'out': out}


def build_frame(kind, *args):
    """a non-method frame object built from explicit constructor arguments: what the caller ASKED for (projected by the
    harness from the arguments) next to what the object holds afterwards"""
    from pamqp import body, header
    from abstraction import a_props, mag
    if kind == 'ProtocolHeader':
        want = {'cls': 'ProtocolHeader', 'v': [int(x) for x in args]}
        mk = lambda: header.ProtocolHeader(*args)   # noqa: E731
    elif kind == 'ContentBody':
        want = {'cls': 'ContentBody', 'b': list(bytes(args[0])), 'b_ok': True, 'len': len(args[0])}
        mk = lambda: body.ContentBody(args[0])      # noqa: E731
    else:
        weight, size, props = args
        want = {'cls': 'ContentHeader', 'class_id': 60, 'weight': weight, 'size': mag(size), 'size_ok': True, 'props': a_props(props)}
        mk = lambda: header.ContentHeader(weight, size, props)   # noqa: E731
    try:
        got = a_frame(mk())
        r = 'ok'
        if kind == 'ContentHeader':          # (the class id is not a constructor argument: not part of what was asked for)
            got['class_id'] = want['class_id'] = 60
    except Exception as e:  # noqa
        got, r = {'cls': 'exc:' + type(e).__name__}, 'exc'
    return {'kind': kind, 'want': want, 'got': got, 'r': r}


class BaseRefused(Exception):
    """carries the Construct event of a base construction that was refused"""


def set_then_marshal(cls_name, kwargs, arg, v, ch=1, between=False):
    """valid construction, attribute changed afterwards, then frame.marshal; with between: two other (valid)
    frames, built BEFORE the mutation, are marshalled between the mutation and the marshal"""
    from abstraction import class_by_name
    from pamqp import commands
    k = class_by_name(cls_name)
    try:
        o = k(**kwargs)
    except Exception:  # noqa  (the base arguments satisfy every constraint: a refusal is for TLC to judge, as a Construct event)
        raise BaseRefused(construct(cls_name, kwargs))
    others = [commands.Basic.Ack(7, True), commands.Queue.Declare(queue='ok')] if between else []
    setattr(o, arg, v)
    for other in others:
        frame.marshal(other, 3)
    if between:
        fin = {'cls': cls_name, 'vals': {n: abstract(kwargs.get(n, getattr(o, n))) if n != arg else abstract(v)
                                            for n in type(o).__slots__}}
    else:
        fin = a_frame(o)
    try:
        out = {'r': 'ok', 'b': list(frame.marshal(o, ch))}
    except Exception as e:  # noqa
        out = a_exc(e)
    # the SAME object marshalled again, untouched: what the first attempt decided must be decided again
    try:
        again = {'r': 'ok', 'b': list(frame.marshal(o, ch))}
    except Exception as e:  # noqa
        again = a_exc(e)
    return {'cls': cls_name, 'arg': arg, 'in': fin, 'ch': ch, 'out': out, 'again': again}


def char_block(cls_name, base_kwargs, arg, lo, hi, template=('', '')):
    """which one-character names (embedded in template) does the constructor accept?"""
    from abstraction import class_by_name
    k = class_by_name(cls_name)
    acc = []
    other = []
    pre, post = template
    for c in range(lo, hi + 1):
        kw = dict(base_kwargs)
        kw[arg] = pre + chr(c) + post
        try:
            k(**kw)
            acc.append(c)
        except ValueError:
            pass
        except Exception as e:  # noqa
            other.append(c)
    return {'cls': cls_name, 'arg': arg, 'lo': lo, 'hi': hi, 'pre': [ord(x) for x in pre], 'post': [ord(x) for x in post],
            'accepted': acc, 'other': other}


def observe(o):
    """everything the mapping protocol of a frame / properties object shows"""
    k = type(o)
    names = list(k.__slots__)
    ev = {'cls': o.name if hasattr(o, 'frame_id') and k.__name__ != 'Properties' else 'Basic.Properties',
          'attrs': {n: _a(o, n) for n in names} or {'_': {'t': 'none'}}}
    try:
        import itertools as _it
        items = list(_it.islice(iter(o), 5000))      # (an iteration that never ends must not eat the machine)
        if len(items) >= 5000:
            raise OverflowError('iteration yields more than 5000 items')
        ev['iter_names'] = [str(x[0]) for x in items]
        ev['iter_vals'] = [abstract(x[1]) for x in items]
        d = dict(o)
        ev['dict_names'] = list(d.keys())
        ev['dict_vals'] = [abstract(x) for x in d.values()]
        ev['len'] = as_int(len(o))
        ev['contains'] = [bool(n in o) for n in names]
        probes = ['', 'nope', 'name', 'index', '__slots__', 'validate', '_' + (names[0] if names else 'x')]
        for n in names:          # near misses of every real name
            probes += [n.rstrip('_'), n + '_', n[:-1], n.upper(), n.replace('_', '-'), n + ' ', ' ' + n]
        probes = [q for q in dict.fromkeys(probes) if q not in names]
        ev['probes'] = probes
        ev['contains_probe'] = [bool(p in o) for p in probes]
        ev['getitem'] = [abstract(o[n]) for n in names]
        # overlapping iterations over the SAME instance are independent of each other
        z = list(zip(o, o))
        ev['zip_first'] = [str(a[0]) for a, b in z]
        ev['zip_second'] = [str(b[0]) for a, b in z]
        ev['nested'] = as_int(sum(1 for _a in o for _b in o))
        it = iter(o)
        head = [str(next(it)[0])] if names else []
        dict(o)
        ev['partial'] = head + [str(x[0]) for x in it]
        ev['attributes'] = [str(x) for x in k.attributes()]
        ev['types'] = [str(k.amqp_type(n)) for n in names]
        ev['r'] = 'ok'
    except Exception as e:  # noqa
        ev['r'] = 'exc'
        ev['exc'] = a_exc(e)
    return ev


def _a(o, n):
    try:
        return abstract(getattr(o, n))
    except AttributeError:
        return {'t': 'other', 'name': '<unset>'}


def peek(f, ch, tail):
    """encode, peek at the 7-byte header (+ arbitrary tail), take size + 8 bytes, decode"""
    fin = a_frame(f)
    try:
        b = frame.marshal(f, ch)
    except Exception:  # noqa
        return None
    fp = frame_parts(b + tail)['out']
    un = {'r': 'skip'}
    if fp.get('r') == 'ok' and fp.get('size'):
        size = int.from_bytes(bytes(fp['size']), 'big')
        un, _ = do_unmarshal((b + tail)[:size + 8])
    return {'in': fin, 'ch': ch, 'out': {'r': 'ok', 'b': list(b)}, 'fp': fp, 'un': un, 'tail': len(tail)}


# ---------------------------------------------------------------------------
# stream sessions
# ---------------------------------------------------------------------------
def send(f, ch):
    fin = a_frame(f)
    try:
        b = frame.marshal(f, ch)
        return {'in': fin, 'ch': ch, 'out': {'r': 'ok', 'b': list(b)}}
    except Exception as e:  # noqa
        return {'in': fin, 'ch': ch, 'out': a_exc(e)}


def try_decode(rx):
    """greedy receiver step: unmarshal whatever is in the buffer, drop what was consumed"""
    ev = {'buflen': len(rx.buf)}
    out, f = do_unmarshal(rx.buf)
    ev['out'] = out
    progressed = False
    if out['r'] == 'ok':
        n = out['n']
        if isinstance(n, int) and 0 < n <= len(rx.buf):
            rx.buf = rx.buf[n:]
            rx.got += 1
            progressed = True
    return ev, progressed


def peek_read(rx):
    """size-reading receiver step: frame_parts, then exactly size + 8 bytes"""
    ev = {'buflen': len(rx.buf)}
    if rx.buf[:4] == b'AMQP':
        out, f = do_unmarshal(rx.buf)
        ev['fp'] = {'r': 'skip'}
    else:
        fp = frame_parts(rx.buf)['out']
        ev['fp'] = fp
        if fp.get('r') != 'ok' or not fp.get('size'):
            ev['out'] = {'r': 'wait'}
            return ev, False
        need = int.from_bytes(bytes(fp['size']), 'big') + 8
        if len(rx.buf) < need:
            ev['out'] = {'r': 'wait'}
            return ev, False
        out, f = do_unmarshal(rx.buf[:need])
    ev['out'] = out
    progressed = False
    if out['r'] == 'ok' and isinstance(out['n'], int) and 0 < out['n'] <= len(rx.buf):
        rx.buf = rx.buf[out['n']:]
        rx.got += 1
        progressed = True
    return ev, progressed


# ---------------------------------------------------------------------------
# time zone
# ---------------------------------------------------------------------------
def set_tz(z):
    import os
    import time
    os.environ['TZ'] = z
    time.tzset()
    return {'z': z}


def tz_child(zone, seed, n):
    """events recorded by a FRESH interpreter started with TZ=zone in its environment"""
    import json
    import os
    import subprocess
    import sys
    env = dict(os.environ)
    env['TZ'] = zone
    here = os.path.dirname(os.path.abspath(__file__))
    p = subprocess.run([sys.executable, os.path.join(here, 'tzchild.py'), str(seed), str(n), zone], env=env,
                       stdout=subprocess.PIPE, stderr=subprocess.PIPE, text=True)
    if p.returncode != 0:
        raise RuntimeError('tz child failed: ' + p.stderr[-2000:])
    evs = [json.loads(l) for l in p.stdout.splitlines() if l.startswith('{')]
    return evs
