"""Generators of frame objects, typed by the SPECIFICATION's catalogue
(spec/gen_catalog.py), not by pamqp.commands."""
import os
import sys

import gen

sys.path.insert(0, os.path.join(os.path.dirname(os.path.dirname(os.path.abspath(__file__))), 'spec'))
import gen_catalog as cat  # noqa: E402

METHODS = []      # (full name, cid, mid, [(arg, type, default)])
for cname, cid, methods in cat.CATALOG:
    for mname, mid, resp, args in methods:
        METHODS.append(('%s.%s' % (cname, mname), cid, mid, args))

EXCH = set(cat.EXCHANGE_NAME)
QUEUE = set(cat.QUEUE_NAME)
FIXED = {(c, a): v for c, a, v in cat.FIXED}
MAXLEN = {(c, a): n for c, a, n in cat.MAXLEN}
NAME_CHARS = cat.NAME_CHARS

CHANNELS = [0, 1, 2, 255, 256, 32767, 32768, 65534, 65535]


def rand_channel(rng):
    return rng.choice(CHANNELS) if rng.random() < 0.6 else rng.randint(0, 65535)


def rand_name(rng, maxlen):
    n = rng.choice([0, 1, 2, 5, maxlen - 1, maxlen, rng.randint(0, maxlen)])
    return ''.join(rng.choice(NAME_CHARS) for _ in range(n))


def short_text(rng):
    """any text of at most 255 UTF-8 bytes"""
    c = rng.random()
    if c < 0.1:
        return rng.choice(['x' * 255, 'é' * 127, '€' * 85, '\U0001F600' * 63, 'a' * 254 + 'b', '\U0001F600' * 63 + 'abc'])
    s = gen.rand_text(rng, 60)
    while len(s.encode('utf-8')) > 255:
        s = s[:-1]
    return s


def valid_arg(rng, cls, name, ty):
    """a value the specification accepts for this argument"""
    key = (cls, name)
    if name == 'ticket' and ty == 'short':
        return 0
    if key in FIXED:
        return FIXED[key]
    if key in EXCH:
        return rand_name(rng, 127)
    if key in QUEUE:
        return rand_name(rng, 256 if rng.random() < 0.3 else 255)[:255]   # shortstr: at most 255 bytes on the wire
    if key in MAXLEN:
        s = short_text(rng)
        return s[:MAXLEN[key]]
    if ty == 'bit':
        return rng.random() < 0.5
    if ty == 'octet':
        return rng.choice([0, 1, 9, 127, 128, 255, rng.randint(0, 255)])
    if ty == 'short':
        return rng.choice([0, 1, 255, 256, 32767, 32768, 65535, 206, 0x01CE, rng.randint(0, 65535)])
    if ty == 'long':
        return rng.choice([0, 1, 65535, 65536, 2 ** 31 - 1, 2 ** 31, 2 ** 32 - 1, 0xCECECECE, 206, rng.randint(0, 2 ** 32 - 1)])
    if ty == 'longlong':
        return rng.choice([0, 1, 2 ** 31, 2 ** 32, 2 ** 63 - 1, 206, rng.randint(0, 2 ** 55) * 256 + 206, rng.randint(0, 2 ** 63 - 1)])
    if ty == 'shortstr':
        return short_text(rng)
    if ty == 'longstr':
        return gen.rand_text(rng, 300) if rng.random() < 0.8 else 'L' * rng.choice([256, 1000, 70000])
    if ty == 'table':
        c = rng.random()
        if c < 0.15:
            return None
        if c < 0.3:
            return {}
        return gen.rand_table(rng, 3, 3)
    raise ValueError(ty)


def method_kwargs(rng, spec_method):
    name, cid, mid, args = spec_method
    return {a: valid_arg(rng, name, a, ty) for a, ty, d in args}


def class_of(name):
    from pamqp import commands
    c, m = name.split('.')
    return getattr(getattr(commands, c), m)


def rand_method(rng, spec_method=None):
    sm = spec_method or rng.choice(METHODS)
    return class_of(sm[0])(**method_kwargs(rng, sm))


PROPS = cat.PROPERTIES


def rand_prop_value(rng, name, ty):
    import datetime
    if name == 'delivery_mode':
        return rng.choice([1, 2])
    if ty == 'octet':
        return rng.choice([0, 1, 9, 255, 206, rng.randint(0, 255)])
    if ty == 'shortstr':
        s = short_text(rng)
        return s or 'x'
    if ty == 'table':
        t = gen.rand_table(rng, 3, 3)
        if rng.random() < 0.2:
            t['\U0010ffff' * 3] = rng.choice([-50, bytearray(b'\x01\xce'), [-50], {'z': -50}])   # sorts last, ends in 0xCE
        return t
    if ty == 'timestamp':
        sec = rng.choice([0, 1, 2 ** 31 - 1, 2 ** 31, 2 ** 31 + 1, 2 ** 32 - 1, rng.randint(0, 2 ** 32 - 1),
                          rng.randint(0, 2 ** 24 - 1) * 256 + 206])          # ... also ending in the frame-end octet
        dt = datetime.datetime(1970, 1, 1, tzinfo=datetime.timezone.utc) + datetime.timedelta(seconds=sec)
        return dt if rng.random() < 0.7 else dt.replace(tzinfo=None)
    raise ValueError(ty)


BODY_SIZES = [0, 1, 255, 256, 2 ** 16, 2 ** 31 - 1, 2 ** 31, 2 ** 32 - 1, 2 ** 32, 2 ** 32 + 1, 2 ** 63 - 1, 2 ** 63, 2 ** 63 + 1, 2 ** 64 - 1]


def rand_header(rng, subset=None):
    """ContentHeader with the given subset (bitmask over the 13 settable properties) set"""
    from pamqp import commands, header
    settable = [p for p in PROPS if p[0] != 'cluster_id']
    if subset is None:
        subset = rng.getrandbits(13)
    kw = {}
    for i, (n, ty) in enumerate(settable):
        if subset >> i & 1:
            kw[n] = rand_prop_value(rng, n, ty)
    size = rng.choice(BODY_SIZES) if rng.random() < 0.6 else rng.getrandbits(rng.choice([8, 16, 32, 64]))
    # (the weight field is reserved: whatever the caller passes, zero travels -- and a peer's non-zero weight is accepted)
    return header.ContentHeader(rng.choice([0, 0, 0, 1, 65535]), size, commands.Basic.Properties(**kw))


def rand_body(rng, maxlen=300):
    from pamqp import body
    n = rng.choice([1, 2, 7, 8, 9, rng.randint(1, maxlen)])
    c = rng.random()
    if c < 0.2:
        b = bytes([0xCE]) * n
    elif c < 0.35:
        b = (b'AMQP\x00\x00\x09\x01' * (n // 8 + 1))[:n]
    elif c < 0.5:
        b = (b'\x08\x00\x00\x00\x00\x00\x00\xce' * (n // 8 + 1))[:n]
    else:
        b = bytes(rng.getrandbits(8) for _ in range(n))
    c = rng.random()          # the caller's buffer may be any bytes-like object, also a mutable one
    return body.ContentBody(bytearray(b) if c < 0.12 else memoryview(b) if c < 0.2 else b)


def rand_frame(rng):
    """(frame, channel) of any of the five kinds"""
    from pamqp import header, heartbeat
    c = rng.random()
    if c < 0.55:
        return rand_method(rng), rand_channel(rng)
    if c < 0.75:
        return rand_header(rng), rand_channel(rng)
    if c < 0.92:
        return rand_body(rng), rand_channel(rng)
    if c < 0.96:
        return heartbeat.Heartbeat(), rng.choice([0, 0, 1, 5, 65535])   # (the encoder ignores the channel of a heartbeat)
    return header.ProtocolHeader(rng.randint(0, 255), rng.randint(0, 255), rng.randint(0, 255)), 0
