"""C16: histories of constructions, mutations, encodes, decodes and failed decodes on live objects.
The driver addresses containers only by PATH (object i / user container j); which paths alias is
decided by the specification (Trace.tla, H* actions) and compared with id() observed here."""
import actions
import framegen
import gen
from abstraction import abstract, a_exc, a_frame, a_props, mag
import common

common.load_pamqp()
from pamqp import base, commands, frame, header  # noqa: E402

SLOT = {}
for name, cid, mid, args in framegen.METHODS:
    t = [a for a, ty, d in args if ty == 'table']
    SLOT[name] = t[0] if t else ''
WITH_TABLE = [sm for sm in framegen.METHODS if SLOT[sm[0]]]
WITHOUT = [sm for sm in framegen.METHODS if not SLOT[sm[0]]]
SETTABLE = [p for p in framegen.PROPS if p[0] != 'cluster_id']
LONG_KEY = 'x-' + 'k' * 140          # a field name the encoder shortens on the wire (never in the caller's table)


class Session:
    def __init__(self, rec, rng, props):
        self.rec, self.rng, self.P = rec, rng, props
        self.objs = []
        self.users = []
        rec.add('HReset', props)

    # -- observation --
    def container(self, o):
        if isinstance(o, header.ContentHeader):
            return o.properties
        if isinstance(o, base.Frame):
            s = SLOT.get(o.name, '')
            return getattr(o, s, None) if s else None
        return None

    def observe(self):
        ids = {}

        def rank(x):
            if x is None:
                return 0
            return ids.setdefault(id(x), len(ids) + 1)
        snap = []
        for o in self.objs:
            f = a_frame(o)
            snap.append({'cls': f['cls'], 'f': f, 'cid': rank(self.container(o))})
        uids = [rank(u) for u in self.users]
        return {'snap': snap, 'uids': uids}

    def add(self, action, **fields):
        fields.update(self.observe())
        self.rec.add(action, self.P, nt=True, **fields)

    # -- operations --
    def new_dict(self):
        d = self.rng.choice([{}, {}, {'x-a': 1}, gen.rand_table(self.rng, 2, 2), {LONG_KEY: 'v', 'nested': {LONG_KEY: 1}}])
        self.users.append(d)
        self.add('HNewDict', v=abstract(d))

    def new_props(self):
        kw = {n: framegen.rand_prop_value(self.rng, n, ty) for n, ty in self.rng.sample(SETTABLE, self.rng.randint(0, 3))}
        p = commands.Basic.Properties(**kw)
        self.users.append(p)
        self.add('HNewProps', v=a_props(p))

    def user_index(self, kind):
        idx = [j for j, u in enumerate(self.users) if isinstance(u, kind)]
        return self.rng.choice(idx) if idx else None

    def construct(self):
        rng = self.rng
        c = rng.random()
        if c < 0.25:
            j = self.user_index(base.BasicProperties) if rng.random() < 0.6 else None
            size = rng.choice([0, 1, 2 ** 40])
            o = header.ContentHeader(0, size, self.users[j] if j is not None else None)
            self.objs.append(o)
            self.add('HConstruct', cls='ContentHeader', size=mag(size), uref=(j + 1 if j is not None else 0), out={'r': 'ok'},
                     kw={'_': {'t': 'none'}})
            return
        sm = rng.choice(WITH_TABLE if c < 0.85 else WITHOUT)
        name = sm[0]
        kw = framegen.method_kwargs(rng, sm)
        slot = SLOT[name]
        uref = 0
        if slot:
            how = rng.choice(['default', 'none', 'empty', 'literal', 'user', 'user'])
            if how == 'default':
                kw.pop(slot, None)
            elif how == 'none':
                kw[slot] = None
            elif how == 'empty':
                kw[slot] = {}
            elif how == 'literal':
                kw[slot] = {'lit': rng.randint(0, 9)}
            else:
                j = self.user_index(dict)
                if j is None:
                    kw.pop(slot, None)
                else:
                    kw[slot] = self.users[j]
                    uref = j + 1
        if rng.random() < 0.3:      # leave some arguments to their defaults
            for a in list(kw):
                if a != slot and rng.random() < 0.5:
                    kw.pop(a)
        akw = {a: abstract(v) for a, v in kw.items() if not (uref and a == slot)} or {'_': {'t': 'none'}}
        try:
            o = framegen.class_of(name)(**kw)
            self.objs.append(o)
            out = {'r': 'ok'}
        except Exception as e:  # noqa
            out = a_exc(e)
        self.add('HConstruct', cls=name, kw=akw, uref=uref, out=out, size=[])

    def mutate(self):
        rng = self.rng
        via_obj = rng.random() < 0.6
        if via_obj:
            cand = [i for i, o in enumerate(self.objs) if self.container(o) is not None]
        else:
            cand = list(range(len(self.users)))
        if not cand:
            return
        i = rng.choice(cand)
        target = self.container(self.objs[i]) if via_obj else self.users[i]
        if isinstance(target, dict):
            key = rng.choice(['x-a', 'x-b', 'lit', 'k', LONG_KEY])
            v = rng.choice([rng.randint(0, 300), 'v', True, [1], {'n': 1}, 40000, 65535, 3000000000, 2 ** 31, -129, 32768, [40000, 3000000000],
                            {LONG_KEY: 2}, [{LONG_KEY: 3}]])
            target[key] = v
            self.add('HMutate', via='obj' if via_obj else 'user', i=i + 1, key=[ord(c) for c in key], name='', v=abstract(v))
        elif isinstance(target, base.BasicProperties):
            n, ty = rng.choice(SETTABLE)
            v = framegen.rand_prop_value(rng, n, ty)
            setattr(target, n, v)
            self.add('HMutate', via='obj' if via_obj else 'user', i=i + 1, key=[], name=n, v=abstract(v))

    def setattr(self):
        rng = self.rng
        cand = [i for i, o in enumerate(self.objs) if isinstance(o, base.Frame) and
                [a for a in type(o).__slots__ if a != SLOT.get(o.name)]]
        if not cand:
            return
        i = rng.choice(cand)
        o = self.objs[i]
        sm = [m for m in framegen.METHODS if m[0] == o.name][0]
        a, ty, d = rng.choice([x for x in sm[3] if x[0] != SLOT[o.name]])
        v = framegen.valid_arg(rng, o.name, a, ty)
        setattr(o, a, v)
        self.add('HSetAttr', i=i + 1, arg=a, v=abstract(v))

    def setslot(self):
        cand = [i for i, o in enumerate(self.objs) if isinstance(o, base.Frame) and SLOT.get(o.name)]
        j = self.user_index(dict)
        if not cand or j is None:
            return
        i = self.rng.choice(cand)
        setattr(self.objs[i], SLOT[self.objs[i].name], self.users[j])
        self.add('HSetSlot', i=i + 1, u=j + 1)

    def marshal(self):
        if not self.objs:
            return None
        i = self.rng.randrange(len(self.objs))
        ch = framegen.rand_channel(self.rng)
        out = actions._call(frame.marshal, self.objs[i], ch)
        self.add('HMarshal', i=i + 1, ch=ch, out=out)
        return bytes(out['b']) if out['r'] == 'ok' else None

    def unmarshal(self, data):
        out, f = actions.do_unmarshal(data)
        if f is not None:
            self.objs.append(f)
        self.add('HUnmarshal', b=list(data), out=out)

    def toggle(self):
        self.rec.add('Toggle', self.P, **actions.toggle(self.rng.choice(['true', 'false', 'noarg'])))


def run_session(rec, rng, props, nops):
    import wiregen
    s = Session(rec, rng, props)
    last = None
    for _ in range(nops):
        if len(s.objs) >= 7:
            break
        c = rng.random()
        if c < 0.10:
            s.new_dict()
        elif c < 0.15:
            s.new_props()
        elif c < 0.40:
            s.construct()
        elif c < 0.58:
            s.mutate()
        elif c < 0.64:
            s.setattr()
        elif c < 0.68:
            s.setslot()
        elif c < 0.82:
            last = s.marshal() or last
        elif c < 0.95:
            r = rng.random()
            if last is not None and r < 0.5:
                s.unmarshal(last)
            elif r < 0.75:
                f, ch = framegen.rand_frame(rng)
                try:
                    s.unmarshal(frame.marshal(f, ch))
                except Exception:  # noqa
                    pass
            elif last is not None and r < 0.9:
                s.unmarshal(last[:rng.randrange(len(last))])          # a failed decode in the middle of the history
            else:
                s.unmarshal(bytes(rng.getrandbits(8) for _ in range(rng.randint(0, 30))))
        else:
            s.toggle()
            if last is not None and rng.random() < 0.7:
                last = s.marshal() or last          # the same objects again under the other setting of the switch
    rec.add('Toggle', props, **actions.toggle('false'))


def run_script(rec, rng, props, hist):
    """S2C: one history generated by TLC from MC_Api (generator config), executed on real objects"""
    s = Session(rec, rng, props)
    last = None
    for step in hist:
        op = step['op']
        if op == 'newdict':
            d = {} if step['n'] == 0 else {'x': 7}
            s.users.append(d)
            s.add('HNewDict', v=abstract(d))
        elif op == 'newprops':
            p = commands.Basic.Properties()
            s.users.append(p)
            s.add('HNewProps', v=a_props(p))
        elif op == 'construct':
            u = step['u']
            if step['cls'] == 'ContentHeader':
                o = header.ContentHeader(0, 5, s.users[u - 1] if u else None)
                s.objs.append(o)
                s.add('HConstruct', cls='ContentHeader', size=[5], uref=u, out={'r': 'ok'}, kw={'_': {'t': 'none'}})
            else:
                k = framegen.class_of(step['cls'])
                o = k(arguments=s.users[u - 1]) if u else k()
                s.objs.append(o)
                s.add('HConstruct', cls=step['cls'], kw={'_': {'t': 'none'}}, uref=u, out={'r': 'ok'}, size=[])
        elif op in ('mutobj', 'mutuser'):
            via_obj = op == 'mutobj'
            idx = step['i'] if via_obj else step['j']
            target = s.container(s.objs[idx - 1]) if via_obj else s.users[idx - 1]
            n = step['n']
            if isinstance(target, dict):
                target['x'] = n
                s.add('HMutate', via='obj' if via_obj else 'user', i=idx, key=[120], name='', v=abstract(n))
            else:
                target.priority = n % 256
                s.add('HMutate', via='obj' if via_obj else 'user', i=idx, key=[], name='priority', v=abstract(n % 256))
        elif op in ('spoil', 'repair'):
            o = s.objs[step['i'] - 1]
            arg = 'ticket' if o.name == 'Queue.Declare' else 'multiple'
            v = ('x' if o.name == 'Queue.Declare' else None) if op == 'spoil' else (0 if o.name == 'Queue.Declare' else False)
            setattr(o, arg, v)
            s.add('HSetAttr', i=step['i'], arg=arg, v=abstract(v))
        elif op == 'marshal':
            out = actions._call(frame.marshal, s.objs[step['i'] - 1], 1)
            s.add('HMarshal', i=step['i'], ch=1, out=out)
            if out['r'] == 'ok':
                last = bytes(out['b'])
        elif op == 'unmarshal' and last is not None:
            s.unmarshal(last)
        elif op == 'unmarshalbad' and last is not None:
            s.unmarshal(last[:-1])
        elif op == 'toggle':
            rec.add('Toggle', props, **actions.toggle('true' if step['on'] else 'false'))
    rec.add('Toggle', props, **actions.toggle('false'))
