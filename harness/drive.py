#!/usr/bin/env python3
"""Driver process: runs the real pamqp along one shard of a property's
workload and writes the recorded trace (ndjson) plus a .meta summary."""
import hashlib
import json
import random
import sys

import common
import tlc


class Ctx:
    pass


INPUT_SKIP = {'id', 'p', 'out', 'dec', 'un', 're', 'nt', 'obs', 'snap', 'session'}


def main():
    prop, tier, seed, shard, nshards, out, genfiles = sys.argv[1:8]
    seed, shard, nshards = int(seed), int(shard), int(nshards)
    ctx = Ctx()
    ctx.prop, ctx.tier, ctx.seed, ctx.shard, ctx.nshards = prop, tier, seed, shard, nshards
    ctx.rng = random.Random('%d/%s/%d' % (seed, prop, shard))
    ctx.rec = common.Recorder()
    ctx.gen = json.loads(genfiles)
    ctx.quick = tier == 'quick'
    import drivers
    if shard % 5 == 4:
        # ambient state the application owns: this shard runs with the library's loggers at DEBUG and a handler that formats
        # every record (whatever a log statement evaluates or consumes, the results are the same)
        import logging

        class _Formats(logging.Handler):
            def emit(self, record):
                try:
                    record.getMessage()
                except Exception:  # noqa
                    pass
        lg = logging.getLogger('pamqp')
        lg.setLevel(logging.DEBUG)
        lg.addHandler(_Formats())
        lg.propagate = False
    aborted = False
    try:
        drivers.DRIVERS[prop](ctx)
        # history insensitivity of the property's OWN calls: a sample of the stateless events of this trace is executed
        # again after a storm of unrelated calls (failures included) in the same interpreter and judged again
        if prop not in ('C14', 'C17'):
            import rerun
            cand = [e for e in ctx.rec.events if e['a'] in rerun.STATELESS and len(json.dumps(e)) < 60000]
            ctx.rng.shuffle(cand)
            # stratified: a few of every (action, label) kind, so that rare families are probed again too
            per, sample = {}, []
            cap = 6 if ctx.quick else 60
            for e in cand:
                k = (e['a'], e.get('label') or e.get('sigx') or '')
                if per.get(k, 0) < cap:
                    per[k] = per.get(k, 0) + 1
                    sample.append(e)
            sample = sample[:400 if ctx.quick else 4000]
            if sample:
                drivers.generic_storm(ctx)
                ctx.rec.add('Toggle', [prop], **__import__('actions').toggle('false'))
                if prop == 'C15':
                    ctx.rec.add('SetTZ', [prop], **__import__('actions').set_tz('UTC'))
                if prop in ('C03', 'C04', 'C10', 'C12', 'C16', 'C01', 'C02'):
                    from abstraction import concrete, concrete_frame
                    vals, frs = [], []
                    for e in sample:
                        try:
                            if e['a'] == 'EncodeValue' and e['in']['t'] in ('table', 'array') and len(vals) < 40:
                                vals.append(concrete(e['in']))
                            elif e['a'] == 'RoundTrip' and len(frs) < 40:
                                frs.append(concrete_frame(e['in']))
                        except Exception:  # noqa
                            pass
                    drivers.encode_mutate_encode(ctx, [prop], vals, frs)
                for e in sample:
                    again, done = rerun._last(e)
                    if done:
                        again = {k: v for k, v in again.items() if k not in ('id', 'a', 'p', 'session')}
                        again['phase'] = 'after-storm'
                        if isinstance(e.get('out'), dict) and e['out'].get('r') in ('ok', 'exc') and e['a'] in ('EncodeValue', 'RoundTrip'):
                            again['first'] = {'r': e['out']['r'], 'b': e['out'].get('b', [])}      # what the SAME call returned before the storm
                        ctx.rec.add(e['a'], e['p'], **again)
    except (Exception, __import__('observers').BudgetExceeded) as e:  # noqa  (BudgetExceeded: the wall-clock guard fired)
        from abstraction import a_exc
        import traceback
        info = a_exc(e)
        if isinstance(e, (ImportError, MemoryError)) or 'tlc.' in type(e).__module__ + '.':
            raise            # the environment / the machinery itself (exit 2)
        # with no pamqp frame in the traceback the driver's own code failed on what the library handed back (an attribute
        # that is no longer there, None where a name was, a class where an instance was): on the unchanged tree no driver
        # fails for any seed explored, so this too is a verdict about the tree, reported under its own signature
        if not info['site']:
            info['site'] = 'driver'
        # the library refused a call this driver makes on every run: a verdict for TLC, not a crash
        where = [f for f in traceback.extract_tb(e.__traceback__) if '/harness/' in f.filename and 'observers' not in f.filename]
        ctx.rec.add('DriverAbort', [prop], nt=True, out=info, sigx='%s@%s' % (info['type'], info['site']),
                    where='%s:%s' % (where[-1].name, where[-1].lineno) if where else '?', msg=str(e)[:300])
        aborted = True
    events = ctx.rec.events
    tlc.write_events(out, events)
    hashes = set()
    counts = {}
    for e in events:
        counts[e['a']] = counts.get(e['a'], 0) + 1
        if e.get('nt'):
            key = json.dumps({k: v for k, v in e.items() if k not in INPUT_SKIP}, sort_keys=True)
            hashes.add(hashlib.sha1(key.encode()).hexdigest()[:16])
    samples = []
    for e in events:
        if e.get('nt'):
            s = json.dumps(e)
            samples.append(json.loads(s) if len(s) < 1500 else {'id': e['id'], 'a': e['a'], 'truncated': s[:1500]})
            if len(samples) >= 2:
                break
    json.dump({'n': len(events), 'nt_hashes': sorted(hashes), 'samples': samples, 'counts': counts},
              open(out + '.meta', 'w'))


if __name__ == '__main__':
    main()
