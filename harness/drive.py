#!/usr/bin/env python3
"""Driver process: runs the real pamqp along one shard of a property's
workload and writes the recorded trace (ndjson) plus a .meta summary."""
import hashlib
import json
import random
import sys

import common
import tlc


class Ctx:
    pass


INPUT_SKIP = {'id', 'p', 'out', 'dec', 'un', 're', 'nt', 'obs', 'snap', 'session'}


def main():
    prop, tier, seed, shard, nshards, out, genfiles = sys.argv[1:8]
    seed, shard, nshards = int(seed), int(shard), int(nshards)
    ctx = Ctx()
    ctx.prop, ctx.tier, ctx.seed, ctx.shard, ctx.nshards = prop, tier, seed, shard, nshards
    ctx.rng = random.Random('%d/%s/%d' % (seed, prop, shard))
    ctx.rec = common.Recorder()
    ctx.gen = json.loads(genfiles)
    ctx.quick = tier == 'quick'
    import drivers
    drivers.DRIVERS[prop](ctx)
    events = ctx.rec.events
    tlc.write_events(out, events)
    hashes = set()
    counts = {}
    for e in events:
        counts[e['a']] = counts.get(e['a'], 0) + 1
        if e.get('nt'):
            key = json.dumps({k: v for k, v in e.items() if k not in INPUT_SKIP}, sort_keys=True)
            hashes.add(hashlib.sha1(key.encode()).hexdigest()[:16])
    samples = []
    for e in events:
        if e.get('nt'):
            s = json.dumps(e)
            samples.append(json.loads(s) if len(s) < 1500 else {'id': e['id'], 'a': e['a'], 'truncated': s[:1500]})
            if len(samples) >= 2:
                break
    json.dump({'n': len(events), 'nt_hashes': sorted(hashes), 'samples': samples, 'counts': counts},
              open(out + '.meta', 'w'))


if __name__ == '__main__':
    main()
