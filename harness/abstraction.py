"""The one place where Python values become the abstract values of the TLA+
specification (DESIGN.md section 3) and back.

Constraints of the reader on the TLA+ side (CommunityModules Json):
no null, no floats, every integer < 2**31, no empty JSON object.
"""
import datetime
import decimal
import struct
import time


def as_int(x, default=-1):
    """a TLC-representable integer, or `default` when the code handed back something else"""
    if isinstance(x, bool):
        return int(x)
    if isinstance(x, int) and -2 ** 31 < x < 2 ** 31:
        return x
    return default


def mag(n):
    """big-endian magnitude bytes of a natural, no leading zero, 0 -> []"""
    n = abs(n)
    return list(n.to_bytes((n.bit_length() + 7) // 8, 'big')) if n else []


def a_int(n):
    return {'t': 'int', 'neg': n < 0, 'mag': mag(n)}


def a_str(s):
    return {'t': 'str', 'cp': [ord(c) for c in s]}


def a_bytes(b):
    return {'t': 'bytes', 'b': list(b)}


def a_float(x):
    return {'t': 'float', 'd': list(struct.pack('>d', x))}


def a_dec(d):
    sign, digits, exp = d.as_tuple()
    if isinstance(exp, str):       # 'n', 'N', 'F'
        return {'t': 'dec', 'neg': bool(sign), 'digits': [], 'exp': 0, 'special': exp}
    if abs(exp) > 100000 or len(digits) > 400:
        return {'t': 'other', 'name': 'HugeDecimal'}
    return {'t': 'dec', 'neg': bool(sign), 'digits': list(digits), 'exp': exp, 'special': ''}


def a_dt(v):
    off = v.utcoffset() if v.tzinfo is not None else None
    if off is None:
        o = []
    else:
        if off.microseconds:
            return {'t': 'other', 'name': 'datetime-subsecond-offset'}
        o = [off.days * 86400 + off.seconds]
    return {'t': 'dt', 'y': v.year, 'mo': v.month, 'd': v.day, 'h': v.hour, 'mi': v.minute,
            's': v.second, 'us': v.microsecond, 'off': o}


def a_st(v):
    return {'t': 'st', 'y': v.tm_year, 'mo': v.tm_mon, 'd': v.tm_mday, 'h': v.tm_hour,
            'mi': v.tm_min, 's': v.tm_sec}


def abstract(v, depth=0):
    """Python value -> abstract JSON value.  dict keeps insertion order."""
    if depth > 200:
        return {'t': 'other', 'name': 'too-deep'}
    if v is None:
        return {'t': 'none'}
    if isinstance(v, bool):
        return {'t': 'bool', 'b': v}
    if isinstance(v, int):
        return a_int(v)
    if isinstance(v, float):
        return a_float(v)
    if isinstance(v, decimal.Decimal):
        return a_dec(v)
    if isinstance(v, str):
        return a_str(v)
    if isinstance(v, bytearray):
        return {'t': 'bytearray', 'b': list(v)}
    if isinstance(v, (bytes, memoryview)):
        return a_bytes(bytes(v))
    if isinstance(v, datetime.datetime):
        return a_dt(v)
    if isinstance(v, time.struct_time):
        return a_st(v)
    if isinstance(v, dict):
        es = []
        for k, x in v.items():
            if not isinstance(k, str):
                return {'t': 'other', 'name': 'dict-with-non-str-key'}
            es.append({'k': [ord(c) for c in k], 'v': abstract(x, depth + 1)})
        return {'t': 'table', 'e': es}
    if isinstance(v, list):
        return {'t': 'array', 'e': [abstract(x, depth + 1) for x in v]}
    try:
        falsy = not bool(v)
    except Exception:  # noqa
        falsy = False
    return {'t': 'other', 'name': type(v).__name__, 'falsy': falsy}


def concrete(a):
    """abstract JSON value -> Python value (for values produced by TLC)."""
    t = a['t']
    if t == 'none':
        return None
    if t == 'bool':
        return bool(a['b'])
    if t == 'int':
        n = int.from_bytes(bytes(a['mag']), 'big')
        return -n if a['neg'] else n
    if t == 'float':
        return struct.unpack('>d', bytes(a['d']))[0]
    if t == 'dec':
        if a['special']:
            return decimal.Decimal((int(a['neg']), (), a['special']))
        return decimal.Decimal((int(a['neg']), tuple(a['digits']), a['exp']))
    if t == 'str':
        return ''.join(chr(c) for c in a['cp'])
    if t == 'bytes':
        return bytes(a['b'])
    if t == 'bytearray':
        return bytearray(a['b'])
    if t == 'dt':
        tz = None
        if a['off']:
            tz = datetime.timezone(datetime.timedelta(seconds=a['off'][0]))
        return datetime.datetime(a['y'], a['mo'], a['d'], a['h'], a['mi'], a['s'], a['us'], tzinfo=tz)
    if t == 'st':
        return time.struct_time((a['y'], a['mo'], a['d'], a['h'], a['mi'], a['s'], 0, 1, 0))
    if t == 'table':
        return {''.join(chr(c) for c in e['k']): concrete(e['v']) for e in a['e']}
    if t == 'array':
        return [concrete(x) for x in a['e']]
    raise ValueError('cannot make concrete: %r' % (a,))


def a_exc(e, lib_exc_cls=None):
    """abstract description of an exception leaving a library call"""
    import traceback
    site = ''
    tb = e.__traceback__
    frames = traceback.extract_tb(tb)
    for fr in reversed(frames):
        if '/pamqp/' in fr.filename:
            site = fr.filename.rsplit('/', 1)[-1][:-3] + '.' + fr.name
            break
    return {'r': 'exc', 'type': type(e).__name__,
            'lib': bool(lib_exc_cls is not None and type(e) is lib_exc_cls),
            'site': site}


# ---------------------------------------------------------------------------
# frames
# ---------------------------------------------------------------------------
def _attr(o, n):
    try:
        return abstract(getattr(o, n))
    except AttributeError:
        return {'t': 'other', 'name': '<unset>'}


def a_props(p):
    return {n: _attr(p, n) for n in type(p).__slots__}


def a_frame(f):
    """frame object -> abstract frame"""
    from pamqp import base, body, header, heartbeat
    if isinstance(f, base.Frame):
        vals = {n: _attr(f, n) for n in type(f).__slots__}
        return {'cls': f.name, 'vals': vals or {'_': {'t': 'none'}}}
    if isinstance(f, header.ContentHeader):
        size = f.body_size
        ok = isinstance(size, int) and not isinstance(size, bool) and size >= 0
        cid = f.class_id if isinstance(f.class_id, int) else -1
        return {'cls': 'ContentHeader', 'class_id': cid,
                'weight': int(f.weight) if isinstance(f.weight, int) and abs(f.weight) < 2 ** 31 else -1,
                'size': mag(size) if ok else [], 'size_ok': ok,
                'props': a_props(f.properties) if isinstance(f.properties, base.BasicProperties)
                else {'bad': abstract(f.properties)}}
    if isinstance(f, body.ContentBody):
        v = f.value
        try:
            ln = len(f)
        except Exception:  # noqa
            ln = -1
        ok = isinstance(v, (bytes, bytearray, memoryview))
        return {'cls': 'ContentBody', 'b': list(bytes(v)) if ok else [], 'b_ok': ok, 'len': ln}
    if isinstance(f, heartbeat.Heartbeat):
        return {'cls': 'Heartbeat'}
    if isinstance(f, header.ProtocolHeader):
        def octet(x):     # True == 1 numerically; anything that is not an int is projected to -1
            return int(x) if isinstance(x, int) and -2 ** 31 < x < 2 ** 31 else -1
        return {'cls': 'ProtocolHeader', 'v': [octet(f.major_version), octet(f.minor_version), octet(f.revision)]}
    return {'cls': 'Other', 'name': type(f).__name__}


def class_by_name(name):
    from pamqp import commands
    c, m = name.split('.')
    return getattr(getattr(commands, c), m)


def concrete_frame(a):
    """abstract frame -> a new frame object.  Method frames are built with the
    no-argument constructor where needed and attributes set afterwards only by
    callers that want to bypass construction-time validation; here the
    constructor is used with keyword arguments."""
    from pamqp import body, commands, header, heartbeat
    cls = a['cls']
    if cls == 'ContentHeader':
        props = commands.Basic.Properties(**{k: concrete(v) for k, v in a['props'].items()
                                             if v['t'] != 'none' and k != 'cluster_id'})
        if 'cluster_id' in a['props'] and a['props']['cluster_id'].get('cp'):
            props.cluster_id = concrete(a['props']['cluster_id'])
        return header.ContentHeader(a.get('weight', 0), int.from_bytes(bytes(a['size']), 'big'), props)
    if cls == 'ContentBody':
        return body.ContentBody(bytes(a['b']))
    if cls == 'Heartbeat':
        return heartbeat.Heartbeat()
    if cls == 'ProtocolHeader':
        return header.ProtocolHeader(*a['v'])
    k = class_by_name(cls)
    return k(**{n: concrete(v) for n, v in a.get('vals', {}).items() if n != '_'})
