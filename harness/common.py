"""Shared driver plumbing: import the pamqp under test, record events."""
import os
import sys
import warnings

VERIF = os.path.dirname(os.path.dirname(os.path.abspath(__file__)))
REPO = os.environ.get('VERIF_REPO', '/repo')


def load_pamqp():
    """Import pamqp from the working tree under test (never from site-packages)."""
    if REPO not in sys.path:
        sys.path.insert(0, REPO)
    warnings.simplefilter('ignore')
    import pamqp
    from pamqp import (base, body, commands, constants, decode, encode, exceptions, frame, header, heartbeat)
    assert os.path.abspath(pamqp.__file__).startswith(os.path.abspath(REPO) + os.sep), pamqp.__file__
    return pamqp


class Recorder:
    def __init__(self):
        self.events = []

    RESETS = {'HReset', 'StreamReset', 'CReset', 'RpcReset', 'ConnReset'}

    def add(self, action, props, **fields):
        import observers
        observers.arm(observers.WATCHDOG_SECONDS)       # a library call that never returns must not hang the check
        if action in self.RESETS:
            self.session = getattr(self, 'session', 0) + 1
        e = {'id': len(self.events) + 1, 'a': action, 'p': list(props)}
        if getattr(self, 'session', 0) and (action[0] in 'HC' and action not in ('CutSet', 'CharBlock', 'Construct', 'CatalogEntry',
                                                                                    'ClassEntry', 'Constants')
                                            or action in ('Send', 'Deliver', 'TryDecode', 'PeekRead', 'Quiesce', 'StreamReset',
                                                          'RpcReset', 'RpcSend', 'RpcRecv')):
            e['session'] = self.session
        e.update(fields)
        self.events.append(e)
        return e
