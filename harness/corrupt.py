#!/usr/bin/env python3
"""Binding self-test (b): a recorded good trace is corrupted in ONE field of ONE event; TLC must reject
exactly that event and nothing else (so the trace spec does not merely count lines, and a rejection does
not derail the rest of the walk)."""
import copy
import json
import os
import random
import shutil
import subprocess
import sys
import tempfile

HERE = os.path.dirname(os.path.abspath(__file__))
sys.path.insert(0, HERE)
import tlc  # noqa: E402

PY = '/venv/bin/python'


CONV = {}


def record(prop, work):
    out = os.path.join(work, prop + '.ndjson')
    env = dict(os.environ, PYTHONHASHSEED='0')
    gen = '{}'
    nsh = '16'
    if prop in ('C14', 'C20'):          # (their traces contain the conversations generated from Conn.tla)
        if not CONV:
            import s2c
            CONV.update(s2c.gen_conn('quick', 7, work)[0])
        gen = json.dumps(CONV)
        nsh = '1' if prop == 'C14' else '16'
    p = subprocess.run([PY, os.path.join(HERE, 'drive.py'), prop, 'quick', '7', '0', nsh, out, gen], env=env,
                       stdout=subprocess.PIPE, stderr=subprocess.STDOUT, text=True)
    assert p.returncode == 0, p.stdout[-2000:]
    return [json.loads(l) for l in open(out)]


def flip_byte(e, field):
    b = e[field]['b']
    i = len(b) // 2
    b[i] = (b[i] + 1) % 256


CORRUPTIONS = [
    # (property whose trace is used, predicate choosing the event, mutation, description)
    ('C04', lambda e: e['a'] == 'RoundTrip' and e['out']['r'] == 'ok' and len(e['out']['b']) > 12,
     lambda e: flip_byte(e, 'out'), 'one byte of the marshalled frame changed'),
    ('C11', lambda e: e['a'] == 'EncodeValue' and e['out']['r'] == 'ok' and e['in']['t'] == 'int' and e['out']['b'][0] != 108,
     lambda e: e['out']['b'].__setitem__(0, 108), 'type tag of a table integer replaced by l'),
    ('C01', lambda e: e['a'] == 'RoundTrip' and e['un']['r'] == 'ok',
     lambda e: e['un'].__setitem__('n', e['un']['n'] + 1), 'consumed count + 1'),
    ('C01', lambda e: e['a'] == 'RoundTrip' and e['un']['r'] == 'ok' and e['ch'] != 7,
     lambda e: e['un'].__setitem__('ch', 7), 'decoded channel changed'),
    ('C06', lambda e: e['a'] == 'TryDecode' and e['out']['r'] == 'ok',
     lambda e: e['out'].__setitem__('n', e['out']['n'] - 1), 'stream: consumed count - 1'),
    ('C06', lambda e: e['a'] == 'Deliver',
     lambda e: e.__setitem__('buflen', e['buflen'] + 1), 'stream: receiver buffer length off by one'),
    ('C12', lambda e: e['a'] == 'EncodeValue' and e['in']['t'] == 'table' and len(e['in']['e']) >= 2 and e['out']['r'] == 'ok',
     lambda e: e['post']['e'].reverse(), 'post-snapshot: two keys swapped (order is part of the snapshot)'),
    ('C16', lambda e: e['a'].startswith('H') and 'snap' in e and any(x['cid'] and x['cid'] in e['uids'] for x in e['snap']),
     lambda e: [x for x in e['snap'] if x['cid'] and x['cid'] in e['uids']][0].__setitem__('cid', 99),
     'object world: an object no longer shares the container the user passed in'),
    ('C19', lambda e: e['a'] == 'Observe' and e.get('len', 0) >= 2,
     lambda e: e['iter_names'].reverse(), 'iteration order reversed'),
    ('C14', lambda e: e['a'] == 'ConnFrame' and e['kind'] == 'method',
     lambda e: e.__setitem__('sync', not e['sync']), 'conversation: synchronous flag of a decoded method flipped'),
    ('C14', lambda e: e['a'] == 'ConnFrame' and e['name'] == 'Channel.OpenOk',
     lambda e: e.__setitem__('name', 'Channel.CloseOk'), 'conversation: a decoded Channel.OpenOk reported as Channel.CloseOk (illegal next frame)'),
    ('C20', lambda e: e['a'] == 'ConnFrame' and e['kind'] == 'body',
     lambda e: e.__setitem__('wire', e['wire'] + 1), 'conversation: a body frame reported one byte longer than marshalled'),
    ('C07', lambda e: e['a'] == 'CutSet' and len(e['cuts']) > 3,
     lambda e: e['cuts'][2].__setitem__('r', 'ok'), 'one strict prefix reported as a frame'),
]


def main():
    work = tempfile.mkdtemp(prefix='corrupt_', dir=os.path.join(tlc.VERIF, '.work'))
    bad = 0
    try:
        traces = {}
        for prop, pick, mutate, what in CORRUPTIONS:
            if prop not in traces:
                traces[prop] = record(prop, work)
            events = copy.deepcopy(traces[prop])
            if prop in ('C14', 'C20'):       # from the first conversation on
                first = min(k_ for k_, e_ in enumerate(events) if e_['a'] == 'ConnReset')
                events = events[first:first + 1500]
            else:
                events = events[:1500]
            for k_, e_ in enumerate(events):
                e_['id'] = k_ + 1
            cand = [i for i, e in enumerate(events) if pick(e)]
            if not cand:
                print('%-4s %-60s NO-CANDIDATE' % (prop, what))
                bad += 1
                continue
            i = random.Random(3).choice(cand)
            mutate(events[i])
            tf = os.path.join(work, 'c.ndjson')
            tlc.write_events(tf, events)
            rej, res = tlc.validate_trace(tf, len(events))
            ids = sorted(set(r['id'] for r in rej if r['prop'] in (prop, 'MACHINERY')))
            ok = ids == [events[i]['id']]
            print('%-4s %-60s %s (rejected events: %s, expected [%d])' % (prop, what, 'OK' if ok else 'FAIL', ids[:6], events[i]['id']))
            bad += 0 if ok else 1
    finally:
        shutil.rmtree(work, ignore_errors=True)
    print('%d corruptions, %d not detected exactly' % (len(CORRUPTIONS), bad))
    return 0 if bad == 0 else 1


if __name__ == '__main__':
    sys.exit(main())
