"""Running TLC: model-checking configs (MC), trace validation (C2S) and
generators (S2C).  Nothing in here decides a verdict: it starts TLC, and parses
what TLC printed (REJECT lines, statistics, coverage)."""
import json
import os
import re
import shutil
import subprocess
import tempfile
import time

VERIF = os.path.dirname(os.path.dirname(os.path.abspath(__file__)))
SPEC = os.path.join(VERIF, 'spec')
JAR = '/opt/veriftools/tla/tla2tools.jar:/opt/veriftools/tla/CommunityModules-deps.jar'


class MachineryError(Exception):
    """TLC crashed, the trace was not consumed, the output could not be parsed."""


def _java(extra_env=None, xss='512m', xmx='3g'):
    env = dict(os.environ)
    env.pop('JAVA_TOOL_OPTIONS', None)
    if extra_env:
        env.update(extra_env)
    cmd = ['java', '-XX:+UseParallelGC', '-Xss' + xss, '-Xmx' + xmx,
           '-DTLA-Library=' + os.pathsep.join([SPEC, os.path.join(SPEC, 'mc'), os.path.join(SPEC, 'trace')]),
           '-cp', JAR, 'tlc2.TLC']
    return cmd, env


STATS_RE = re.compile(r'(\d+) states generated, (\d+) distinct states found, (\d+) states left on queue')
DEPTH_RE = re.compile(r'The depth of the complete state graph search is (\d+)')
REJECT_RE = re.compile(r'<<"REJECT", (.*)>>\s*$')


def run_tlc(module_path, cfg_path, workers=1, env=None, timeout=3600, extra=(), xmx='3g', check_deadlock=False,
            xss=None):
    """Run TLC, return dict(out=str, rc=int, states, distinct, depth, wall)"""
    meta = tempfile.mkdtemp(prefix='tlcmeta_')
    # deep recursion only matters for single-worker trace validation; many worker threads with huge
    # stacks exhaust memory
    cmd, e = _java(env, xmx=xmx, xss=xss or ('512m' if workers == 1 else '64m'))
    cmd += ['-workers', str(workers), '-metadir', meta, '-noGenerateSpecTE', '-config', cfg_path]
    if not check_deadlock:
        cmd += ['-deadlock']
    cmd += list(extra) + [module_path]
    t0 = time.time()
    try:
        p = subprocess.run(cmd, env=e, cwd=os.path.dirname(module_path), stdout=subprocess.PIPE,
                           stderr=subprocess.STDOUT, timeout=timeout, text=True, errors='replace')
        out, rc = p.stdout, p.returncode
    except subprocess.TimeoutExpired as ex:
        out = (ex.stdout or b'').decode('utf-8', 'replace') if isinstance(ex.stdout, bytes) else (ex.stdout or '')
        rc = -9
    finally:
        shutil.rmtree(meta, ignore_errors=True)
    res = {'out': out, 'rc': rc, 'wall': time.time() - t0, 'cmd': ' '.join(cmd)}
    m = None
    for m in STATS_RE.finditer(out):
        pass
    if m:
        res['states'], res['distinct'], res['queue'] = int(m.group(1)), int(m.group(2)), int(m.group(3))
    m = DEPTH_RE.search(out)
    if m:
        res['depth'] = int(m.group(1))
    return res


def parse_rejects(out):
    """REJECT tuples printed by the trace spec: <<"REJECT", id, "Cxx", "clause">>"""
    rej = []
    for line in out.splitlines():
        m = REJECT_RE.search(line)
        if m:
            parts = [x.strip() for x in m.group(1).split(',')]
            r = {'id': int(parts[0]), 'prop': parts[1].strip('"'), 'clause': parts[2].strip('"')}
            if len(parts) > 3:
                r['detail'] = parts[3].strip('"')
            rej.append(r)
    return rej


def validate_trace(trace_file, n_events, module='Trace', timeout=3600, xmx='3g'):
    """TLC walks the recorded trace with spec/trace/<module>.tla.  Returns
    (rejects, stats).  Raises MachineryError if TLC did not consume the trace."""
    mod = os.path.join(SPEC, 'trace', module + '.tla')
    cfg = os.path.join(SPEC, 'trace', module + '.cfg')
    # the JSON reader needs roughly 12x the file size on the heap
    mb = os.path.getsize(trace_file) // (1 << 20)
    if mb > 200:
        xmx = '%dg' % min(16, 3 + mb // 64)
    res = run_tlc(mod, cfg, workers=1, env={'TRACE_FILE': trace_file}, timeout=timeout, xmx=xmx)
    out = res['out']
    ok = 'Model checking completed. No error has been found.' in out
    if not ok or res.get('depth') != n_events + 1:
        tail = '\n'.join(out.splitlines()[-40:])
        raise MachineryError('TLC did not accept/consume trace %s (depth %s, expected %d)\n%s'
                             % (trace_file, res.get('depth'), n_events + 1, tail))
    res['info'] = [(int(m.group(1)), m.group(2)) for m in re.finditer(r'<<"INFO", (\d+), "(\w+)">>', out)]
    res['skips'] = len(re.findall(r'<<"SKIP", \d+, "\w+">>', out))
    return parse_rejects(out), res


COVER_RE = re.compile(r'^<(\w+) line (\d+), col \d+ to line \d+, col \d+ of module (\w+)>: (\d+):(\d+)', re.M)


def model_check(module, cfg=None, workers=16, timeout=3600, extra=(), count_actions=False, xmx='8g', env=None):
    """Exhaustive TLC run of spec/mc/<module>.tla.  Returns stats dict with 'ok', 'violated'
    (invariant/property name or None) and, with count_actions, the number of transitions per
    named action (from TLC's labelled state-graph dump; TLC's own -coverage runs out of memory
    on the mutually recursive codec operators)."""
    mod = os.path.join(SPEC, 'mc', module + '.tla')
    cfgp = os.path.join(SPEC, 'mc', (cfg or module) + '.cfg')
    ex = list(extra)
    dump = None
    if count_actions:
        dump = tempfile.mkdtemp(prefix='tlcdump_')
        ex = ['-dump', 'dot,actionlabels', os.path.join(dump, 'g')] + ex
    try:
        res = run_tlc(mod, cfgp, workers=workers, timeout=timeout, extra=ex, xmx=xmx, env=env)
        acts = {}
        if dump and os.path.exists(os.path.join(dump, 'g.dot')):
            with open(os.path.join(dump, 'g.dot')) as f:
                for line in f:
                    m = re.search(r'-> -?\d+ \[label="(\w+)', line)
                    if m:
                        acts[m.group(1)] = acts.get(m.group(1), 0) + 1
        res['actions'] = acts
    finally:
        if dump:
            shutil.rmtree(dump, ignore_errors=True)
    out = res['out']
    res['ok'] = 'Model checking completed. No error has been found.' in out
    m = re.search(r'Error: Invariant (\w+) is violated', out) or \
        re.search(r'Error: Action property (\w+) is violated', out) or \
        re.search(r'Error: Temporal properties were violated', out) or \
        re.search(r'Error: Assumption (line \d+)', out)
    res['violated'] = (m.group(1) if m and m.groups() else ('temporal' if m else None))
    return res


def _check_json(x, where):
    if x is None or isinstance(x, float):
        raise MachineryError('value %r cannot be read by the TLA+ JSON module (%s)' % (x, where))
    if isinstance(x, bool):
        return
    if isinstance(x, int):
        if abs(x) >= 2 ** 31:
            raise MachineryError('integer %d does not fit a TLC integer (%s)' % (x, where))
    elif isinstance(x, dict):
        for k, v in x.items():
            _check_json(v, where + '.' + str(k))
    elif isinstance(x, (list, tuple)):
        for v in x:
            _check_json(v, where)


def write_events(path, events):
    for e in events:
        _check_json(e, 'event %s %s' % (e.get('id'), e.get('a')))
    with open(path, 'w') as f:
        for e in events:
            f.write(json.dumps(e, separators=(',', ':')))
            f.write('\n')
