"""Specification -> code: TLC generates what the drivers execute."""
import json
import os
import re

import tlc

S2C_RE = re.compile(r'<<"S2C", "(.*)">>\s*$')


def parse_s2c(out):
    items = []
    for line in out.splitlines():
        m = S2C_RE.search(line)
        if m:
            items.append(json.loads(json.loads('"' + m.group(1) + '"')))
    return items


def gen_stream(tier, seed, work):
    """every decoder transition of the exhaustive Stream model (distinct receiver buffers)"""
    cfg = 'MC_Stream_gen2' if tier == 'quick' else 'MC_Stream_gen3'
    res = tlc.run_tlc(os.path.join(tlc.SPEC, 'mc', 'MC_Stream.tla'), os.path.join(tlc.SPEC, 'mc', cfg + '.cfg'),
                      workers=1, xmx='6g', xss='64m')
    if 'Model checking completed. No error has been found.' not in res['out']:
        raise tlc.MachineryError('S2C generator MC_Stream/%s failed\n%s' % (cfg, res['out'][-3000:]))
    items = parse_s2c(res['out'])
    seen = set()
    uniq = []
    for it in items:
        k = bytes(it['buf'])
        if k not in seen:
            seen.add(k)
            uniq.append(it)
    path = os.path.join(work, 'stream_bufs.ndjson')
    with open(path, 'w') as f:
        for it in uniq:
            f.write(json.dumps(it) + '\n')
    return {'stream_bufs': path}, {'module': 'MC_Stream', 'cfg': cfg, 'states': res.get('states', 0),
                                   'distinct': res.get('distinct', 0), 'transitions_emitted': len(items),
                                   'distinct_buffers': len(uniq), 'wall_s': round(res['wall'], 2)}


def gen_threads(tier, seed, work):
    """every complete interleaving of Threads.tla = one schedule for the line-level scheduler"""
    cfg = 'MC_Threads_gen' if tier == 'quick' else 'MC_Threads_gen2'
    res = tlc.run_tlc(os.path.join(tlc.SPEC, 'mc', 'MC_Threads.tla'), os.path.join(tlc.SPEC, 'mc', cfg + '.cfg'),
                      workers=1, xmx='6g', xss='64m')
    if 'Model checking completed. No error has been found.' not in res['out']:
        raise tlc.MachineryError('S2C generator MC_Threads/%s failed\n%s' % (cfg, res['out'][-3000:]))
    items = parse_s2c(res['out'])
    import random
    random.Random(seed).shuffle(items)
    items = items[:5000]
    path = os.path.join(work, 'schedules.ndjson')
    with open(path, 'w') as f:
        for it in items:
            f.write(json.dumps(it) + '\n')
    return {'schedules': path}, {'module': 'MC_Threads', 'cfg': cfg, 'states': res.get('states', 0),
                                 'distinct': res.get('distinct', 0), 'schedules': len(items), 'wall_s': round(res['wall'], 2)}


def gen_ladder(tier, seed, work):
    """every toggle/encode history of length 3 over the switch-sensitive integers (MC_Ladder, generator config)"""
    res = tlc.run_tlc(os.path.join(tlc.SPEC, 'mc', 'MC_Ladder.tla'), os.path.join(tlc.SPEC, 'mc', 'MC_Ladder_gen.cfg'),
                      workers=1, xmx='6g', xss='64m')
    if 'Model checking completed. No error has been found.' not in res['out']:
        raise tlc.MachineryError('S2C generator MC_Ladder_gen failed\n%s' % res['out'][-3000:])
    items = parse_s2c(res['out'])
    seen, uniq = set(), []
    for it in items:
        k = json.dumps(it, sort_keys=True)
        if k not in seen:
            seen.add(k)
            uniq.append(it)
    import random
    random.Random(seed).shuffle(uniq)
    if tier == 'quick':
        uniq = uniq[:1600]
    path = os.path.join(work, 'ladder_hist.ndjson')
    with open(path, 'w') as f:
        for it in uniq:
            f.write(json.dumps(it) + '\n')
    return {'ladder_hist': path}, {'module': 'MC_Ladder', 'cfg': 'MC_Ladder_gen', 'states': res.get('states', 0),
                                   'distinct': res.get('distinct', 0), 'histories': len(uniq), 'wall_s': round(res['wall'], 2)}


def gen_threads_and_ladder(tier, seed, work):
    a, sa = gen_threads(tier, seed, work)
    sa = dict(sa)
    for name, g in (('ladder', gen_ladder), ('api', gen_api), ('values', gen_values), ('frames', gen_frames)):
        b, sb = g(tier, seed, work)
        a.update(b)
        sa[name] = sb
        sa['states'] = sa.get('states', 0) + sb.get('states', 0)
        sa['distinct'] = sa.get('distinct', 0) + sb.get('distinct', 0)
    return a, sa


def gen_order(tier, seed, work):
    """every insertion order of up to 3 entries reachable in MC_Order (nested tables included)"""
    res = tlc.run_tlc(os.path.join(tlc.SPEC, 'mc', 'MC_Order.tla'), os.path.join(tlc.SPEC, 'mc', 'MC_Order_gen.cfg'),
                      workers=1, xmx='6g', xss='64m')
    if 'Model checking completed. No error has been found.' not in res['out']:
        raise tlc.MachineryError('S2C generator MC_Order_gen failed\n%s' % res['out'][-3000:])
    items = parse_s2c(res['out'])
    seen, uniq = set(), []
    for it in items:
        k = json.dumps(it)
        if k not in seen:
            seen.add(k)
            uniq.append(it)
    import random
    random.Random(seed).shuffle(uniq)
    if tier == 'quick':
        uniq = uniq[:1500]
    path = os.path.join(work, 'orders.ndjson')
    with open(path, 'w') as f:
        for it in uniq:
            f.write(json.dumps(it) + '\n')
    return {'orders': path}, {'module': 'MC_Order', 'cfg': 'MC_Order_gen', 'states': res.get('states', 0),
                              'distinct': res.get('distinct', 0), 'orders': len(uniq), 'wall_s': round(res['wall'], 2)}


def gen_api(tier, seed, work):
    """every history of 4 calls of the object-world model MC_Api (generator config)"""
    res = tlc.run_tlc(os.path.join(tlc.SPEC, 'mc', 'MC_Api.tla'), os.path.join(tlc.SPEC, 'mc', 'MC_Api_gen.cfg'),
                      workers=1, xmx='6g', xss='64m')
    if 'Model checking completed. No error has been found.' not in res['out']:
        raise tlc.MachineryError('S2C generator MC_Api_gen failed\n%s' % res['out'][-3000:])
    items = parse_s2c(res['out'])
    seen, uniq = set(), []
    for it in items:
        k = json.dumps(it)
        if k not in seen:
            seen.add(k)
            uniq.append(it)
    import random
    random.Random(seed).shuffle(uniq)
    if tier == 'quick':
        uniq = uniq[:1200]
    path = os.path.join(work, 'api_hist.ndjson')
    with open(path, 'w') as f:
        for it in uniq:
            f.write(json.dumps(it) + '\n')
    return {'api_hist': path}, {'module': 'MC_Api', 'cfg': 'MC_Api_gen', 'states': res.get('states', 0),
                                'distinct': res.get('distinct', 0), 'histories': len(uniq), 'wall_s': round(res['wall'], 2)}


def _emit_all(module, cfg, key, fname, tier, seed, work, quick_cap=None):
    res = tlc.run_tlc(os.path.join(tlc.SPEC, 'mc', module + '.tla'), os.path.join(tlc.SPEC, 'mc', cfg + '.cfg'),
                      workers=1, xmx='6g', xss='64m')
    if 'Model checking completed. No error has been found.' not in res['out']:
        raise tlc.MachineryError('S2C generator %s/%s failed\n%s' % (module, cfg, res['out'][-3000:]))
    items = parse_s2c(res['out'])
    seen, uniq = set(), []
    for it in items:
        k = json.dumps(it, sort_keys=True)
        if k not in seen:
            seen.add(k)
            uniq.append(it)
    if tier == 'quick' and quick_cap and len(uniq) > quick_cap:
        import random
        random.Random(seed).shuffle(uniq)
        uniq = uniq[:quick_cap]
    path = os.path.join(work, fname)
    with open(path, 'w') as f:
        for it in uniq:
            f.write(json.dumps(it) + '\n')
    return {key: path}, {'module': module, 'cfg': cfg, 'states': res.get('states', 0), 'distinct': res.get('distinct', 0),
                         'emitted': len(uniq), 'wall_s': round(res['wall'], 2)}


def gen_values(tier, seed, work):
    """every value of the small domain of MC_Values (bounded-exhaustive: all leaf kinds, all ordered pairs in arrays and
    tables, nested containers)"""
    return _emit_all('MC_Values', 'MC_Values_gen', 'small_values', 'small_values.ndjson', tier, seed, work, quick_cap=6000)


def gen_frames(tier, seed, work):
    """every frame of the small domain of MC_Frames (64 methods x all bit combinations x boundary arguments, headers,
    bodies, heartbeat, protocol header)"""
    return _emit_all('MC_Frames', 'MC_Frames_gen', 'small_frames', 'small_frames.ndjson', tier, seed, work)


def combine(*gens):
    def run(tier, seed, work):
        files, stats = {}, {'role': 'S2C generators', 'parts': []}
        for g in gens:
            f, st = g(tier, seed, work)
            files.update(f)
            stats['parts'].append(st)
            stats['states'] = stats.get('states', 0) + st.get('states', 0)
            stats['distinct'] = stats.get('distinct', 0) + st.get('distinct', 0)
        return files, stats
    return run


def gen_conn(tier, seed, work):
    """random walks of the connection life-cycle model (Conn.tla, generator configuration, tlc -simulate):
    conversations of up to 40 frames in both directions over 3 channels"""
    import subprocess
    num = 40 if tier == 'quick' else 600
    res = tlc.run_tlc(os.path.join(tlc.SPEC, 'mc', 'MC_Conn.tla'), os.path.join(tlc.SPEC, 'mc', 'MC_Conn_gen.cfg'),
                      workers=1, xmx='4g', xss='64m', extra=('-simulate', 'num=%d' % num, '-depth', '41', '-seed', str(seed % 2 ** 31)))
    items = parse_s2c(res['out'])
    if not items or 'Error' in res['out'].split('S2C')[0]:
        raise tlc.MachineryError('S2C generator MC_Conn_gen failed\n%s' % res['out'][-3000:])
    # (TLC evaluates the emitting invariant on every candidate successor: near-duplicates differing in the last frame)
    seen, uniq = set(), []
    for it in items:
        k = json.dumps(it['conv'][:-1])
        if k not in seen:
            seen.add(k)
            uniq.append(it)
    import random
    random.Random(seed).shuffle(uniq)
    uniq = uniq[:64 if tier == 'quick' else 1200]
    path = os.path.join(work, 'conversations.ndjson')
    with open(path, 'w') as f:
        for it in uniq:
            f.write(json.dumps(it) + '\n')
    import re
    m = re.search(r'The number of states generated: (\d+)', res['out'])
    n = int(m.group(1)) if m else 0
    return {'conversations': path}, {'module': 'MC_Conn', 'cfg': 'MC_Conn_gen (simulate num=%d depth=41)' % num, 'states': n, 'distinct': n,
                                     'conversations': len(uniq), 'frames': sum(len(u['conv']) for u in uniq), 'wall_s': round(res['wall'], 2)}
