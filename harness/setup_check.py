#!/usr/bin/env python3
"""MANIFEST.setup_cmd: nothing to build (pure Python + TLA+); verifies the tool chain is usable offline."""
import os
import subprocess
import sys
HERE = os.path.dirname(os.path.abspath(__file__))
sys.path.insert(0, HERE)
import tlc  # noqa: E402

os.makedirs(os.path.join(tlc.VERIF, '.work'), exist_ok=True)
os.makedirs(os.path.join(tlc.VERIF, 'evidence'), exist_ok=True)
os.makedirs(os.path.join(tlc.VERIF, 'replays'), exist_ok=True)
r = subprocess.run(['java', '-version'], stdout=subprocess.PIPE, stderr=subprocess.STDOUT, text=True)
assert r.returncode == 0, r.stdout
for mod in ['T_Bytes', 'T_Misc', 'T_Ieee']:
    p = os.path.join(tlc.SPEC, 'test', mod + '.tla')
    res = tlc.run_tlc(p, os.path.join(tlc.SPEC, 'test', mod + '.cfg'))
    assert 'No error has been found' in res['out'], res['out'][-2000:]
print('setup ok')
