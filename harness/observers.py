"""Harness-side observers (no source hooks): a deterministic step budget for
decoder calls, peak-memory measurement."""
import sys
import tracemalloc


class BudgetExceeded(BaseException):
    """raised from the profile hook when a call spends more decoder steps than allowed"""


def impl_bound(n):
    """ImplBound(n) of spec/DecodeLoops.tla: what the CODE is held to (8x the specified decoder's bound)"""
    return 16 * n + 256


WALL_SECONDS = 20          # one decoder call: far beyond anything a linear decoder needs on inputs of a few hundred KiB
WATCHDOG_SECONDS = 150     # between two recorded events of a driver


class GiveUp(BudgetExceeded):
    """the library did not return within the wall-clock guard MAX_HANGS times in this driver process: the rest of the workload
    would only wait the guard out again and again; the driver stops and reports (a DriverAbort event)"""


MAX_HANGS = 3
HANGS = [0]


def _on_alarm(signum, frame):
    HANGS[0] += 1
    if HANGS[0] > MAX_HANGS:
        raise GiveUp('the library did not return %d times' % HANGS[0])
    raise BudgetExceeded('wall clock')


def arm(seconds):
    """(re)start the wall-clock guard; main thread only (a loop that makes no call at all is invisible to sys.setprofile)"""
    import signal
    import threading
    if threading.current_thread() is not threading.main_thread():
        return False
    if signal.getsignal(signal.SIGALRM) is not _on_alarm:
        signal.signal(signal.SIGALRM, _on_alarm)
    signal.setitimer(signal.ITIMER_REAL, seconds)
    return True


class wall:
    """with wall(): <library calls> -- BudgetExceeded is raised inside the block when it does not return in WALL_SECONDS"""

    def __enter__(self):
        self.armed = arm(WALL_SECONDS)
        return self

    def __exit__(self, *a):
        if self.armed:
            arm(WATCHDOG_SECONDS)
        return False


HANG = {'r': 'exc', 'type': 'DidNotReturn', 'lib': False, 'site': 'wall-clock guard'}


class StepCounter:
    """counts Python-level function entries inside pamqp/* (sys.setprofile 'call' events); calls of C functions made
    from pamqp code (divmod, list.append, struct unpack ...) are counted separately against a 40x wider limit, so that
    a loop that never enters a Python function is stopped deterministically too"""

    def __init__(self, limit):
        self.limit = limit
        self.climit = 40 * limit
        self.steps = 0
        self.csteps = 0

    def _prof(self, frame, event, arg):
        if event == 'call':
            if '/pamqp/' in frame.f_code.co_filename:
                self.steps += 1
                if self.steps > self.limit:
                    sys.setprofile(None)
                    raise BudgetExceeded()
        elif event == 'c_call' and '/pamqp/' in frame.f_code.co_filename:
            self.csteps += 1
            if self.csteps > self.climit:
                sys.setprofile(None)
                raise BudgetExceeded('c calls')

    def __enter__(self):
        sys.setprofile(self._prof)
        return self

    def __exit__(self, *a):
        sys.setprofile(None)
        return False


def with_budget(fn, data, measure_memory=False):
    """run fn(data) under the step budget; returns (result or None, exception or None, steps, peak)"""
    limit = impl_bound(len(data)) + 1
    peak = -1
    sc = StepCounter(limit)
    if measure_memory:
        tracemalloc.start()
        tracemalloc.reset_peak()
        base = tracemalloc.get_traced_memory()[0]
    res = exc = None
    armed = arm(WALL_SECONDS)
    try:
        with sc:
            res = fn(data)
    except GiveUp:
        raise
    except BudgetExceeded as e:
        exc = e
    except MemoryError as e:
        exc = BudgetExceeded('memory')
    except RecursionError as e:
        exc = e
    except Exception as e:  # noqa
        exc = e
    finally:
        sys.setprofile(None)
        if armed:
            arm(WATCHDOG_SECONDS)
        if measure_memory:
            peak = max(0, tracemalloc.get_traced_memory()[1] - base)
            tracemalloc.stop()
    return res, exc, sc.steps, peak
