"""Harness-side observers (no source hooks): a deterministic step budget for
decoder calls, peak-memory measurement."""
import sys
import tracemalloc


class BudgetExceeded(BaseException):
    """raised from the profile hook when a call spends more decoder steps than allowed"""


def impl_bound(n):
    """ImplBound(n) of spec/DecodeLoops.tla: what the CODE is held to (8x the specified decoder's bound)"""
    return 16 * n + 256


class StepCounter:
    """counts Python-level function entries inside pamqp/* (sys.setprofile 'call' events)"""

    def __init__(self, limit):
        self.limit = limit
        self.steps = 0

    def _prof(self, frame, event, arg):
        if event == 'call' and '/pamqp/' in frame.f_code.co_filename:
            self.steps += 1
            if self.steps > self.limit:
                sys.setprofile(None)
                raise BudgetExceeded()

    def __enter__(self):
        sys.setprofile(self._prof)
        return self

    def __exit__(self, *a):
        sys.setprofile(None)
        return False


def with_budget(fn, data, measure_memory=False):
    """run fn(data) under the step budget; returns (result or None, exception or None, steps, peak)"""
    limit = impl_bound(len(data)) + 1
    peak = -1
    sc = StepCounter(limit)
    if measure_memory:
        tracemalloc.start()
        tracemalloc.reset_peak()
        base = tracemalloc.get_traced_memory()[0]
    res = exc = None
    try:
        with sc:
            res = fn(data)
    except BudgetExceeded as e:
        exc = e
    except MemoryError as e:
        exc = BudgetExceeded('memory')
    except RecursionError as e:
        exc = e
    except Exception as e:  # noqa
        exc = e
    finally:
        sys.setprofile(None)
        if measure_memory:
            peak = max(0, tracemalloc.get_traced_memory()[1] - base)
            tracemalloc.stop()
    return res, exc, sc.steps, peak
