#!/usr/bin/env python3
"""Binding self-test: (a) canary mutants -- a textual change of gmr/pamqp that breaks one property is
applied to a scratch copy of /repo (outside /repo and /verif), the property's quick check is run with
VERIF_REPO=<copy> and must report VIOLATION; (b) corrupted traces -- one recorded field of a good trace
is changed and TLC must reject exactly that event.   ./check selftest [ids...]"""
import concurrent.futures as cf
import json
import os
import shutil
import subprocess
import sys
import tempfile

HERE = os.path.dirname(os.path.abspath(__file__))
VERIF = os.path.dirname(HERE)


def apply(root, m):
    for part in [m] + m.get('also', []):
        p = os.path.join(root, part['file'])
        s = open(p).read()
        if part['find'] not in s:
            raise RuntimeError('mutant %s: pattern not found in %s' % (m['id'], part['file']))
        open(p, 'w').write(s.replace(part['find'], part['replace'], 1))


def run_one(m, tier='quick'):
    tmp = tempfile.mkdtemp(prefix='pamqp_mut_')
    try:
        shutil.copytree('/repo/pamqp', os.path.join(tmp, 'pamqp'))
        apply(tmp, m)
        env = dict(os.environ)
        env['VERIF_REPO'] = tmp
        p = subprocess.run([os.path.join(VERIF, 'check'), m['property'], '--tier', tier], env=env,
                           stdout=subprocess.PIPE, stderr=subprocess.STDOUT, text=True)
        caught = p.returncode == 1 and 'VIOLATION property=%s' % m['property'] in p.stdout
        clauses = sorted(set(l.split('clause=')[1].split()[0] for l in p.stdout.splitlines() if 'clause=' in l))
        return m['id'], m['property'], caught, p.returncode, clauses[:4], p.stdout[-600:] if not caught else ''
    finally:
        shutil.rmtree(tmp, ignore_errors=True)


def main(argv=None):
    argv = argv if argv is not None else sys.argv[2:]
    ms = [m for m in json.load(open(os.path.join(VERIF, 'selftest', 'mutants.json'))) if not m.get('skip')]
    if argv:
        ms = [m for m in ms if m['id'] in argv or m['property'] in argv]
    bad = 0
    with cf.ThreadPoolExecutor(max_workers=3) as ex:
        for mid, prop, caught, rc, clauses, tail in ex.map(run_one, ms):
            print('%-34s %s %s rc=%d %s' % (mid, prop, 'CAUGHT' if caught else 'MISSED', rc, ','.join(clauses)))
            if not caught:
                bad += 1
                print(tail)
    print('%d mutants, %d missed' % (len(ms), bad))
    if not argv:
        import corrupt
        bad += corrupt.main()
    return 0 if bad == 0 else 1


if __name__ == '__main__':
    sys.exit(main(sys.argv[1:]))
