"""Seeded generators of Python values for the drivers (never a judge)."""
import datetime
import decimal
import math
import struct
import time

UTC = datetime.timezone.utc

LADDER_POWERS = [7, 8, 15, 16, 31, 32, 63, 64]


def boundary_ints(spread=2):
    out = set()
    for k in LADDER_POWERS:
        for s in (1, -1):
            for d in range(-spread, spread + 1):
                out.add(s * (1 << k) + d)
    for d in range(-spread - 1, spread + 2):
        out.add(d)
    return sorted(out)


ALPHABET = ['a', 'b', 'z', 'A', '0', '_', '-', ' ', 'é', '€', '\U0001F600', '\x00', '\x7f', '߿', 'ࠀ',
            '￿', '\U00010000', '\U0010ffff']


SIGNATURE_LIKE = ['\ufeff', '\ufeffhello', '\ufeff\ufeff', '\ufffe', '\u200b', '\u00ad-soft', ' lead', 'trail ', '\t', '\r\n', 'a\x00b',
                  '\ud7ff', '\ue000', '\U0010ffff', 'e\u0301', '\u212b', 'ﬁ']      # characters a "forgiving" codec or normaliser eats or rewrites


def rand_text(rng, maxlen=12, alphabet=ALPHABET):
    if rng.random() < 0.04:
        return rng.choice(SIGNATURE_LIKE)
    n = rng.choice([0, 1, 1, 2, 3, rng.randint(0, maxlen)])
    return ''.join(rng.choice(alphabet) for _ in range(n))


def rand_int(rng):
    c = rng.random()
    if c < 0.4:
        return rng.choice(boundary_ints())
    if c < 0.6:
        return rng.randint(-300, 300)
    k = rng.choice([8, 16, 32, 62, 63])
    return rng.randint(-(1 << k), (1 << k) - 1)


SPECIAL_FLOATS = [0.0, -0.0, 1.0, -1.0, 0.1, 1.5, 3.4028234663852886e+38, -3.4028234663852886e+38,
                  1.401298464324817e-45, 1e-46, 7e-46, 1.1754943508222875e-38, 1.1754942e-38,
                  float('inf'), float('-inf'), float('nan'), 16777217.0, 16777219.0, 0.5 + 2 ** -25, 1 + 2 ** -24,
                  1 + 2 ** -24 + 2 ** -40, 1 + 3 * 2 ** -24, 2.0 ** -149, 2.0 ** -150, 1.5 * 2.0 ** -150, 2.0 ** -126 - 2.0 ** -150,
                  3.4028235677973366e+38, 3.4028235677973362e+38]


def rand_float(rng, allow_overflow=False):
    while True:
        c = rng.random()
        if c < 0.3:
            x = rng.choice(SPECIAL_FLOATS)
        elif c < 0.6:
            x = struct.unpack('>d', struct.pack('>Q', rng.getrandbits(64)))[0]
        elif c < 0.8:
            x = struct.unpack('>f', struct.pack('>I', rng.getrandbits(32)))[0] * (1 + rng.choice([0, 2 ** -24, 2 ** -25, -2 ** -25, 2 ** -30]))
        else:
            x = rng.uniform(-1e6, 1e6)
        if allow_overflow:
            return x
        try:
            struct.pack('>f', x)   # generator-side filter only (domain of C03), TLC re-decides with Narrow
            return x
        except OverflowError:
            continue


def rand_decimal_fitting(rng):
    """as-written form fits: scale 0..255, unscaled int32"""
    c = rng.random()
    if c < 0.3:
        unscaled = rng.choice([0, 1, -1, 15, -15, 2147483647, -2147483648, 2147483646, -2147483647, 10, 100, -100, 1000000000])
    else:
        unscaled = rng.randint(-(1 << 31), (1 << 31) - 1)
    scale = rng.choice([0, 0, 1, 2, 3, 5, 7, 10, 28, 29, 40, 100, 255, rng.randint(0, 255)])
    sign = 1 if unscaled < 0 else 0
    digits = tuple(int(ch) for ch in str(abs(unscaled)))
    return decimal.Decimal((sign, digits, -scale))


def rand_datetime_in_range(rng):
    """between the epoch and 2106 (0..0xFFFFFFFF seconds)"""
    sec = rng.choice([0, 1, 2 ** 31 - 1, 2 ** 31, 2 ** 31 + 1, 2 ** 32 - 1, 86399, 86400, 951782400, 951868800,
                      rng.randint(0, 2 ** 32 - 1), rng.randint(0, 2 ** 32 - 1)])
    us = rng.choice([0, 0, 1, 500000, 999999, rng.randint(0, 999999)])
    base = datetime.datetime(1970, 1, 1, tzinfo=UTC) + datetime.timedelta(seconds=sec, microseconds=us)
    kind = rng.random()
    if kind < 0.35:
        return base.replace(tzinfo=None)                      # naive, read as UTC
    if kind < 0.7:
        off = rng.choice([0, 3600, -3600, 19800, 20700, -12600, 50400, -43200, rng.randrange(-86399, 86400, 1)])
        try:
            return base.astimezone(datetime.timezone(datetime.timedelta(seconds=off)))
        except (OverflowError, ValueError):
            return base
    if kind < 0.85:
        return time.struct_time((base.year, base.month, base.day, base.hour, base.minute, base.second, 0, 1, rng.choice([-1, 0, 1])))
    return base


def rand_key(rng):
    c = rng.random()
    if c < 0.05:
        return ''
    if c < 0.1:
        return rng.choice(['a' * 128, 'é' * 127, 'x' * 127 + 'é', '\U0001F600' * 63])
    return rand_text(rng, 10)


def rand_leaf(rng):
    k = rng.randrange(10)
    if k == 0:
        return rng.choice([True, False])
    if k == 1 or k == 2:
        return rand_int(rng)
    if k == 3:
        return rand_float(rng)
    if k == 4:
        return rand_decimal_fitting(rng)
    if k == 5:
        return rand_text(rng, 40)
    if k == 6:
        return bytearray(rng.getrandbits(8) for _ in range(rng.choice([0, 1, 2, 5, 17])))
    if k == 7:
        return rand_datetime_in_range(rng)
    if k == 8:
        return None
    return rng.choice([0, 1, -1, 127, 128, -128, -129, 255, 256])


CONFUSABLE = [[1, True, 1.0, decimal.Decimal(1), decimal.Decimal('1.0')], [0, False, 0.0, -0.0, decimal.Decimal(0), decimal.Decimal('0.00')],
              [2, 2.0, decimal.Decimal(2)], [-1, -1.0, decimal.Decimal(-1)], [255, 255.0], ['', None], [[], {}], ['1', 1], [bytearray(b'a'), 'a']]


def confusable_container(rng):
    """values that compare (or hash) equal but have different types or representations, side by side"""
    grp = rng.choice(CONFUSABLE)
    items = [rng.choice(grp) for _ in range(rng.randint(2, 4))]
    if rng.random() < 0.5:
        return items
    return {k: v for k, v in zip(['a', 'b', 'c', 'd'], items)}


def rand_value(rng, depth=3, width=4):
    if depth > 0 and rng.random() < 0.06:
        return confusable_container(rng)
    if depth <= 0 or rng.random() < 0.45:
        return rand_leaf(rng)
    if rng.random() < 0.5:
        return [rand_value(rng, depth - 1, width) for _ in range(rng.randint(0, width))]
    d = {}
    for _ in range(rng.randint(0, width)):
        d[rand_key(rng)] = rand_value(rng, depth - 1, width)
    return d


def deep_value(rng, depth):
    """a chain of containers nested `depth` levels"""
    v = rand_leaf(rng)
    for i in range(depth):
        v = [v] if rng.random() < 0.5 else {rand_text(rng, 3) or 'k': v}
    return v


def rand_table(rng, depth=3, width=4):
    d = {}
    for _ in range(rng.randint(0, width)):
        d[rand_key(rng)] = rand_value(rng, depth - 1, width)
    return d
