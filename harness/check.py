#!/usr/bin/env python3
"""./check <Cxx> [--tier quick|thorough] | --replay <file> | selftest

Verdict of a check (DESIGN.md 4.4):
  1. MC: TLC model-checks the design configs of the property (spec sanity, coverage)
  2. drivers run the real pamqp from $VERIF_REPO (default /repo) and record traces;
     where the property has an S2C generator, TLC writes the scripts the drivers follow
  3. TLC validates every trace (spec/trace/Trace.tla); REJECT lines are looked up in
     known_findings.json -> KNOWN-FINDING or VIOLATION (+ replay file)
  4. evidence/<id>.json
  exit 0 held / 1 violation / 2 machinery failure
"""
import argparse
import concurrent.futures as cf
import hashlib
import json
import os
import shutil
import subprocess
import sys
import time

HERE = os.path.dirname(os.path.abspath(__file__))
VERIF = os.path.dirname(HERE)
sys.path.insert(0, HERE)
import tlc  # noqa: E402
import registry  # noqa: E402

PY = '/venv/bin/python'
NSHARDS = 16


def load_known():
    p = os.path.join(VERIF, 'known_findings.json')
    if not os.path.exists(p):
        return []
    return json.load(open(p)).get('findings', [])


def signature(rej, ev):
    """identifies WHAT fails, so a different violation of the same property is still reported"""
    out = ev.get('out') or {}
    parts = [rej['prop'], ev.get('a', '?'), rej['clause']]
    if isinstance(out, dict) and out.get('r') == 'exc':
        parts.append('%s@%s' % (out.get('type'), out.get('site')))
    if ev.get('sigx'):
        parts.append(str(ev['sigx']))
    return ':'.join(parts)


def drive_shard(prop, tier, seed, shard, nshards, work, genfiles):
    out = os.path.join(work, 'trace_%02d.ndjson' % shard)
    env = dict(os.environ)
    env['PYTHONHASHSEED'] = '0'
    env['PAMQP_VERIF'] = '1'
    cmd = [PY, os.path.join(HERE, 'drive.py'), prop, tier, str(seed), str(shard), str(nshards), out,
           json.dumps(genfiles)]
    p = subprocess.run(cmd, env=env, stdout=subprocess.PIPE, stderr=subprocess.STDOUT, text=True)
    if p.returncode != 0:
        raise tlc.MachineryError('driver %s shard %d failed:\n%s' % (prop, shard, p.stdout[-4000:]))
    meta = json.load(open(out + '.meta'))
    return out, meta


def validate_shard(path, n, module):
    if n == 0:
        return [], {'states': 0, 'distinct': 0, 'wall': 0.0, 'cmd': ''}
    try:
        rej, res = tlc.validate_trace(path, n, module=module)
    except tlc.MachineryError:
        # (a JVM that died under memory pressure from its fifteen siblings: once more, on its own terms)
        time.sleep(10)
        rej, res = tlc.validate_trace(path, n, module=module, xmx='8g')
    return rej, res


def run_check(prop, tier, seed, keep=False):
    t0 = time.time()
    cfg = registry.PROPS[prop]
    work = os.path.join(VERIF, '.work', '%s_%s_%d' % (prop, tier, os.getpid()))
    shutil.rmtree(work, ignore_errors=True)
    os.makedirs(work)
    states = transitions = 0
    mc_runs = []
    violations = []
    known_hits = []
    try:
        # ---- 1. MC ----
        for mc in cfg.get('mc', lambda t: [])(tier):
            res = tlc.model_check(mc['module'], mc.get('cfg'), workers=mc.get('workers', 16),
                                  timeout=mc.get('timeout', 1800), extra=mc.get('extra', ()),
                                  count_actions=bool(mc.get('actions')),
                                  env=mc.get('env'))
            expect_fail = mc.get('expect_violation')
            mc_runs.append({'module': mc['module'], 'cfg': mc.get('cfg') or mc['module'],
                            'states_generated': res.get('states'), 'distinct': res.get('distinct'),
                            'depth': res.get('depth'), 'wall_s': round(res['wall'], 2),
                            'violated': res.get('violated'), 'expect_violation': expect_fail,
                            'actions': res.get('actions', {})})
            if expect_fail:
                # a regression test of the model itself: with the deviation switched on TLC must refute it
                if res.get('violated') != expect_fail and not (expect_fail == 'any' and not res['ok']):
                    raise tlc.MachineryError('MC %s/%s: expected TLC to refute %s, got %s\n%s' % (
                        mc['module'], mc.get('cfg'), expect_fail, res.get('violated'), res['out'][-3000:]))
                continue
            if not res['ok']:
                raise tlc.MachineryError('MC %s/%s failed (the design model itself is refuted or TLC broke)\n%s'
                                         % (mc['module'], mc.get('cfg'), res['out'][-6000:]))
            dead = [a for a in mc.get('actions', ()) if res.get('actions', {}).get(a, 0) == 0]
            if dead:
                raise tlc.MachineryError('MC %s: actions never taken (vacuity): %s' % (mc['module'], dead))
            states += res.get('distinct', 0)
            transitions += res.get('states', 0)
        # ---- 2. S2C generators + drivers ----
        genfiles = {}
        if 'gen' in cfg:
            genfiles, gstats = cfg['gen'](tier, seed, work)
            states += gstats.get('distinct', 0)
            transitions += gstats.get('states', 0)
            mc_runs.append(dict(gstats, role='S2C generator'))
        nshards = cfg.get('shards', lambda t: NSHARDS)(tier)
        with cf.ThreadPoolExecutor(max_workers=16) as ex:
            futs = [ex.submit(drive_shard, prop, tier, seed, s, nshards, work, genfiles) for s in range(nshards)]
            shards = [f.result() for f in futs]
        # ---- 3. validate ----
        module = cfg.get('trace_module', 'Trace')
        with cf.ThreadPoolExecutor(max_workers=16) as ex:
            futs = [ex.submit(validate_shard, path, meta['n'], module) for path, meta in shards]
            results = [f.result() for f in futs]
        n_events = 0
        hashes = set()
        samples = []
        clause_counts = {}
        leniency = {}
        skipped = 0
        checker_cmd = ''
        known = load_known()
        os.makedirs(os.path.join(VERIF, 'replays'), exist_ok=True)
        for fn in os.listdir(os.path.join(VERIF, 'replays')):
            if fn.startswith(prop + '-'):
                try:
                    os.remove(os.path.join(VERIF, 'replays', fn))
                except OSError:
                    pass        # (another run of the same check removed it first)
        for si, ((path, meta), (rej, res)) in enumerate(zip(shards, results)):
            n_events += meta['n']
            hashes.update(meta['nt_hashes'])
            if len(samples) < 3:
                samples.extend(meta['samples'][:3 - len(samples)])
            for k, v in meta.get('counts', {}).items():
                clause_counts[k] = clause_counts.get(k, 0) + v
            states += res.get('distinct', 0)
            transitions += res.get('states', 0)
            checker_cmd = checker_cmd or res.get('cmd', '')
            skipped += res.get('skips', 0)
            if res.get('info'):
                evs = None
                for eid, tag in res['info']:
                    if evs is None:
                        evs = [json.loads(l) for l in open(path)]
                    lab = evs[eid - 1].get('label', '?')
                    lab = lab.rstrip('0123456789').rstrip('-')
                    leniency[lab] = leniency.get(lab, 0) + 1
            if not rej:
                continue
            mach = [r for r in rej if r['prop'] == 'MACHINERY']
            if mach:
                raise tlc.MachineryError('driver premise failed in %s: %s' % (path, mach[:5]))
            events = [json.loads(l) for l in open(path)]
            byid = {}
            for r in rej:
                if r['prop'] != prop:
                    continue
                byid.setdefault(r['id'], []).append(r)
            for eid, rs in sorted(byid.items()):
                ev = events[eid - 1]
                for r in rs:
                    sig = signature(r, ev)
                    hit = [k for k in known if k.get('status') == 'open' and k['property'] == prop
                           and k['signature'] == sig]
                    if hit:
                        known_hits.append((sig, hit[0].get('what', '')))
                        continue
                    rp = os.path.join(VERIF, 'replays', '%s-%d-%02d-%d.json' % (prop, seed, si, eid))
                    prefix = [e for e in events[:eid - 1] if e['a'] in registry.STATEFUL
                              or (ev.get('session') and e.get('session') == ev.get('session'))]
                    json.dump({'property': prop, 'clause': r['clause'], 'signature': sig, 'seed': seed, 'tier': tier,
                               'shard': si, 'event': ev, 'prefix': prefix[-400:], 'trace_module': module},
                              open(rp, 'w'))
                    violations.append((sig, rp, r['clause']))
        seen = set()
        for sig, what in known_hits:
            if sig not in seen:
                seen.add(sig)
                print('KNOWN-FINDING: property=%s %s (%s)' % (prop, sig, what))
        seen = set()
        shown = 0
        for sig, rp, clause in violations:
            if sig in seen:
                continue
            seen.add(sig)
            if shown < 25:
                print('VIOLATION property=%s replay=%s clause=%s signature=%s' % (prop, rp, clause, sig))
                shown += 1
        # ---- 4. evidence ----
        ev = {
            'property_id': prop, 'tier': tier, 'seed': seed, 'level': 'model_checking',
            'coverage': {
                'states': max(states, 1), 'transitions': max(transitions, 1),
                'traces_validated_against_impl': n_events,
                'evaluations': n_events, 'distinct_nontrivial': len(hashes),
                'rule': cfg.get('rule', ''), 'samples': samples or ['(no events)'],
                'checker_cmd': checker_cmd, 'mc_runs': mc_runs, 'events_by_kind': clause_counts,
                'exhaustive': bool(cfg.get('exhaustive', False)),
                'known_findings_hit': sorted(set(s for s, _ in known_hits)),
                'leniency': leniency,
                'events_skipped_because_the_encoder_failed': skipped,
            },
            'assumptions': cfg.get('assumptions', []) + [
                'TLC 1.8 and the CommunityModules Json reader are correct',
                'harness/abstraction.py projects Python values faithfully (self-test: corrupt.py)',
                'the TLA+ reference codec (spec/*.tla) is a faithful reading of AMQP 0-9-1 + RabbitMQ errata'],
            'wall_s': round(time.time() - t0, 2), 'violations': len(set(s for s, _, _ in violations)),
        }
        # information only (never a verdict): families of malformed inputs the decoder accepts, against the pinned set
        pin_path = os.path.join(VERIF, 'leniency_pin.json')
        if leniency and os.path.exists(pin_path):
            pin = json.load(open(pin_path)).get(prop)
            if pin is not None:
                new_fams = sorted(set(leniency) - set(pin))
                if new_fams:
                    print('LENIENCY-INFO property=%s malformed input families now accepted that were refused when pinned: %s' % (prop, new_fams))
        # evidence/ describes runs against /repo only; a run against another tree (self-test mutants, seeded changes, benign
        # refactorings: VERIF_REPO) leaves its evidence under .work/
        other_tree = os.path.realpath(os.environ.get('VERIF_REPO', '/repo')) != os.path.realpath('/repo')
        evdir = os.path.join(VERIF, '.work', 'evidence_other_tree') if other_tree else os.path.join(VERIF, 'evidence')
        ev['tree'] = os.environ.get('VERIF_REPO', '/repo')
        os.makedirs(evdir, exist_ok=True)
        json.dump(ev, open(os.path.join(evdir, prop + '.json'), 'w'), indent=1)
        print('%s %s: %d events judged by TLC, %d distinct non-trivial, %d MC runs, %d states, %.1fs, %d violation signature(s)'
              % (prop, tier, n_events, len(hashes), len(mc_runs), states, time.time() - t0,
                 len(set(s for s, _, _ in violations))))
        return 1 if violations else 0
    finally:
        if not keep:
            shutil.rmtree(work, ignore_errors=True)


def replay(path):
    """re-judge the recorded event (with its state-carrying prefix) through TLC; where the action
    has an executor, first re-execute it on the current working tree"""
    rp = json.load(open(path))
    import rerun
    events = list(rp['prefix']) + [rp['event']]
    events = rerun.reexecute(events)
    for i, e in enumerate(events):
        e['id'] = i + 1
    work = os.path.join(VERIF, '.work', 'replay_%d' % os.getpid())
    os.makedirs(work, exist_ok=True)
    try:
        tf = os.path.join(work, 'replay.ndjson')
        tlc.write_events(tf, events)
        rej, res = tlc.validate_trace(tf, len(events), module=rp.get('trace_module', 'Trace'))
        mine = [r for r in rej if r['prop'] == rp['property'] and r['id'] == len(events)]
        for r in mine:
            print('VIOLATION property=%s replay=%s clause=%s' % (rp['property'], path, r['clause']))
        print(json.dumps(events[-1])[:2000])
        return 1 if mine else 0
    finally:
        shutil.rmtree(work, ignore_errors=True)


def main():
    ap = argparse.ArgumentParser()
    ap.add_argument('prop', nargs='?')
    ap.add_argument('--tier', default=os.environ.get('VERIF_TIER', 'quick'))
    ap.add_argument('--replay')
    ap.add_argument('--keep', action='store_true')
    a = ap.parse_args()
    seed = int(os.environ.get('VERIF_SEED', '20260101'))
    try:
        if a.replay:
            sys.exit(replay(a.replay))
        if a.prop == 'selftest':
            import selftest
            sys.exit(selftest.main())
        if a.prop not in registry.PROPS:
            print('unknown property', a.prop)
            sys.exit(2)
        sys.exit(run_check(a.prop, a.tier, seed, keep=a.keep))
    except tlc.MachineryError as e:
        print('MACHINERY-FAILURE:', e)
        sys.exit(2)


if __name__ == '__main__':
    main()
