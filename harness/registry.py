"""Per-property configuration of the checks."""
import s2c

STATEFUL = {'Toggle', 'SetTZ'}


def _mc(*runs):
    return lambda tier: [r for r in runs if r.get('tier', tier) == tier or r.get('tier') == 'both']


PROPS = {
    'C11': {'shards': lambda t: 16 if t == 'quick' else 48,
            
        'gen': s2c.gen_ladder,
        'mc': _mc({'module': 'MC_Ladder', 'cfg': 'MC_Ladder', 'tier': 'both', 'actions': ['Toggle', 'Next', 'Reset']},
                  {'module': 'MC_Ladder', 'cfg': 'MC_Ladder_full', 'tier': 'thorough'}),
        'rule': 'one event per encode call; non-trivial = integer inside [-2^63, 2^63-1] or a toggle/nested position; '
                'distinct = distinct (action, abstract input) pairs',
    },
    'C03': {'gen': s2c.gen_values,
            'mc': _mc({'module': 'MC_Values', 'cfg': 'MC_Values', 'tier': 'quick'}, {'module': 'MC_Values', 'cfg': 'MC_Values_deep', 'tier': 'thorough'}),
            'rule': 'one event per encode+decode of a field value; every generated value is in the statement\'s domain '
                    '(re-decided by TLC: Encodable03); distinct = distinct abstract inputs'},
    'C01': {'gen': s2c.gen_frames,
            'shards': lambda t: 16 if t == 'quick' else 48,
            'mc': _mc({'module': 'MC_Frames', 'cfg': 'MC_Frames', 'tier': 'both'}),
            'rule': 'one event per frame.marshal+frame.unmarshal of a method frame with specification-valid arguments; '
                    'distinct = distinct (class, argument values, channel)'},
    'C02': {'mc': _mc({'module': 'MC_Props', 'cfg': 'MC_Props', 'tier': 'both'}),
            'rule': 'one event per content-header round trip; quick: each of the 8192 presence subsets once + random'},
    'C18': {'gen': s2c.combine(s2c.gen_frames, s2c.gen_conn),
            'mc': _mc({'module': 'MC_Frames', 'cfg': 'MC_Frames', 'tier': 'both'},
                      {'module': 'MC_Content', 'cfg': 'MC_Content_small', 'tier': 'quick', 'actions': ['Publish', 'Transmit', 'Heartbeat']},
                      {'module': 'MC_Content', 'cfg': 'MC_Content', 'tier': 'thorough'},
                      {'module': 'MC_Conn', 'cfg': 'MC_Conn', 'tier': 'quick'}, {'module': 'MC_Conn', 'cfg': 'MC_Conn_deep', 'tier': 'thorough'},
                      {'module': 'MC_Conn', 'cfg': 'MC_Conn_reach', 'tier': 'both', 'expect_violation': 'NoCompleteConversation'},
                      {'module': 'MC_Conn', 'cfg': 'MC_Conn_live', 'tier': 'both', 'workers': 8}),
            'rule': 'one event per body / heartbeat / protocol-header round trip; distinct = distinct (payload, channel)'},
    'C04': {'gen': s2c.combine(s2c.gen_values, s2c.gen_frames),
            'shards': lambda t: 16 if t == 'quick' else 48,
            'mc': _mc({'module': 'MC_Frames', 'cfg': 'MC_Frames', 'tier': 'both'}),
            'rule': 'one event per encoder call (frame.marshal of all five kinds, Frame.marshal(), Properties.marshal(), '
                    'by_type, encode_table_value); every byte compared with the TLA+ reference encoder'},
    'C14': {'mc': _mc({'module': 'MC_Catalog', 'cfg': 'MC_Catalog', 'tier': 'both'},
                      {'module': 'MC_Rpc', 'cfg': 'MC_Rpc', 'tier': 'both', 'actions': ['Request', 'Reply', 'Async']},
                      {'module': 'MC_Conn', 'cfg': 'MC_Conn', 'tier': 'quick'}, {'module': 'MC_Conn', 'cfg': 'MC_Conn_deep', 'tier': 'thorough'},
                      {'module': 'MC_Conn', 'cfg': 'MC_Conn_reach', 'tier': 'both', 'expect_violation': 'NoCompleteConversation'}),
            'gen': s2c.gen_conn,
            'rule': 'exhaustive static trace: one event per class reachable through INDEX_MAPPING (64), one for '
                    'Basic.Properties, one per AMQP class, one for the key set; compared field by field with Catalog.tla',
            'exhaustive': True, 'shards': lambda t: 1},
    'C17': {'mc': _mc({'module': 'MC_Catalog', 'cfg': 'MC_Catalog', 'tier': 'both'}),
            'rule': 'exhaustive static trace: one event per CLASS_MAPPING entry (18), key set, constants',
            'exhaustive': True, 'shards': lambda t: 1},
    'C05': {'mc': _mc({'module': 'MC_Frames', 'cfg': 'MC_Frames', 'tier': 'both'}, {'module': 'MC_Values', 'cfg': 'MC_Values_deep', 'tier': 'thorough'}),
            'rule': 'grammar-side generated wire bytes (all 19 tags, unsorted keys, reserved bits, non-UTF-8 long strings, '
                    'values the send side refuses); non-trivial = every event; distinct by byte string'},
    'C07': {'gen': s2c.gen_frames,
            'mc': _mc({'module': 'MC_Frames', 'cfg': 'MC_Frames', 'tier': 'both'}, {'module': 'MC_Stream', 'cfg': 'MC_Stream_3', 'tier': 'thorough'}),
            'rule': 'one CutSet event per valid frame: every strict prefix (strategic cuts for frames > 700 bytes) decoded; '
                    'non-trivial = frame longer than 8 bytes'},
    'C13': {'mc': _mc({'module': 'MC_Catalog', 'cfg': 'MC_Catalog', 'tier': 'both'},
                      {'module': 'MC_Valid', 'cfg': 'MC_Valid', 'tier': 'both', 'actions': ['Construct', 'SetAttr', 'Receive', 'DoMarshal']}),
            'rule': 'Construct / SetThenMarshal events around every constraint of every constrained argument, CharBlock events '
                    '(4096 code points each) over all of Unicode, crafted frames with refused values decoded'},
    'C19': {'mc': _mc({'module': 'MC_Catalog', 'cfg': 'MC_Catalog', 'tier': 'both'}),
            'rule': 'one Observe event per object (constructed, after setattr, decoded) for all 64 classes + Basic.Properties'},
    'C20': {'gen': s2c.gen_conn,
            'rule': 'FrameParts on buffers of length 0..16, every value of each header byte, Peek on encoded frames + tails, '
                    'stream sessions with the size-reading receiver walked by Stream.tla (Mode = peek)',
            'mc': _mc({'module': 'MC_Stream', 'cfg': 'MC_Stream_peek', 'tier': 'both', 'actions': ['Send', 'DoDeliver', 'PeekRead']},
                      {'module': 'MC_Stream', 'cfg': 'MC_Stream_peek3', 'tier': 'thorough'})},
    'C08': {'shards': lambda t: 16 if t == 'quick' else 48,
            'mc': _mc({'module': 'MC_DecodeLoops', 'cfg': 'MC_DecodeLoops', 'tier': 'both', 'actions': ['ArrayIter', 'FlagIter']},
                      {'module': 'MC_DecodeLoops', 'cfg': 'MC_DecodeLoops_dev1', 'tier': 'both', 'expect_violation': 'Progress'},
                      {'module': 'MC_DecodeLoops', 'cfg': 'MC_DecodeLoops_dev2', 'tier': 'both', 'expect_violation': 'StepBound'}),
            'rule': 'one Unmarshal event per input under the decoder-step budget ImplBound(n)=16n+256 (sys.setprofile); inputs: '
                    'single-byte corruptions, rewritten length fields / flag words, truncated payloads in valid envelopes, '
                    'grammar-directed faults, nesting <= 64, random strings; peak memory measured on every 10th'},
    'C09': {'shards': lambda t: 16 if t == 'quick' else 48,
            'mc': _mc({'module': 'MC_DecodeLoops', 'cfg': 'MC_DecodeLoops', 'tier': 'both'}),
            'rule': 'same corpus as C08; the clause only looks at the type of the exception that left frame.unmarshal'},
    'C06': {'shards': lambda t: 16 if t == 'quick' else 48,
            'rule': 'S2C: every distinct receiver buffer of the exhaustive Stream model decoded by the real code; C2S: stream '
                    'sessions (Send / Deliver k / TryDecode) walked by the Stream state machine inside the trace spec; complete '
                    'frames followed by 14 kinds of tail; fuzz inputs for the envelope clause',
            'mc': _mc({'module': 'MC_Stream', 'cfg': 'MC_Stream', 'tier': 'both', 'actions': ['Send', 'DoDeliver', 'TryDecode']},
                      {'module': 'MC_Stream', 'cfg': 'MC_Stream_3', 'tier': 'thorough'}),
            'gen': s2c.combine(s2c.gen_stream, s2c.gen_conn)},
    'C10': {'gen': s2c.gen_values,
            'mc': _mc({'module': 'MC_Values', 'cfg': 'MC_Values', 'tier': 'quick'}, {'module': 'MC_Values', 'cfg': 'MC_Values_deep', 'tier': 'thorough'}),
            'rule': 'EncodeValue / EncodeArg / RoundTrip events with out-of-range, wrong-typed and boundary values at every '
                    'encoder entry point; non-trivial = every event; the clause only applies when the encoder did not raise'},
    'C12': {'shards': lambda t: 16 if t == 'quick' else 48,
            'mc': _mc({'module': 'MC_Order', 'cfg': 'MC_Order', 'tier': 'both', 'actions': ['AddEntry']}),
            'gen': s2c.combine(s2c.gen_order, s2c.gen_values),
            'rule': 'every value encoded twice with deep snapshots before/after (order included); equal-content tables in '
                    'different insertion orders (SameBytes); all frame kinds'},
    'C15': {'mc': _mc({'module': 'MC_Tz', 'cfg': 'MC_Tz', 'tier': 'both', 'actions': ['SetTZA', 'SetTZB', 'Encode', 'Decode']}),
            'rule': 'SetTZ(z) then encode/decode of naive, aware and struct_time instants (DST transition hours +-1 s) in-process '
                    'and in fresh interpreters started with TZ=z; the specification never reads the zone'},
    'C16': {'rule': 'histories of constructions / mutations / encodes / decodes / failed decodes on live objects: after every '
                    'action the projection of every live object (values and container identity) is compared with the object '
                    'world of the specification; threads: TLC-generated interleavings replayed by a line-level scheduler, '
                    'every call judged against the pure operator',
            'mc': _mc({'module': 'MC_Api', 'cfg': 'MC_Api', 'tier': 'quick', 'actions': ['Construct', 'MutateObj', 'MutateUser', 'DoMarshal', 'DoUnmarshal', 'DoUnmarshalBad', 'Toggle', 'Spoil', 'Repair']},
                      {'module': 'MC_Api', 'cfg': 'MC_Api_deep', 'tier': 'thorough'},
                      {'module': 'MC_Threads', 'cfg': 'MC_Threads', 'tier': 'both', 'actions': ['Begin', 'Step', 'End']},
                      {'module': 'MC_Threads', 'cfg': 'MC_Threads_dev', 'tier': 'both', 'expect_violation': 'PureResults'}),
            'gen': s2c.gen_threads_and_ladder},
}
