"""Fresh interpreter started with TZ=<zone>: encodes/decodes timestamps and prints the events."""
import json
import random
import struct
import sys
import time

import actions
import drivers

seed, n, zone = int(sys.argv[1]), int(sys.argv[2]), sys.argv[3]
rng = random.Random(seed)
print(json.dumps(dict(a='SetTZ', z=zone, child=True, tzname=list(time.tzname))))
for v in drivers.tz_instants(rng, n // 6 + 1)[:n]:
    print(json.dumps(dict(a='EncodeValue', child=True, **actions.encode_value(v, 'top'))))
for w in [0, 2 ** 31, 2 ** 32 - 1, 2 ** 32, 1700000000123]:
    print(json.dumps(dict(a='DecodeValue', child=True, **actions.decode_value(b'T' + struct.pack('>Q', w), 'top'))))
