"""Grammar-side generators of WIRE BYTES (AMQP 0-9-1 + RabbitMQ errata), written
against the grammar and the specification's catalogue (spec/gen_catalog.py),
not against pamqp's encoder: forms the library never emits are produced on
purpose (all 19 tags, unsorted keys, non-minimal widths, reserved bits, unused
flag bits, non-UTF-8 long strings, values a sender-side validator refuses).
Whether a produced string is well-formed is re-decided by TLC's reference
decoder; nothing here is an oracle."""
import struct

import framegen

TAGS = b'tbBsuIilLfdDSATFV\x00x'


def short_str(s):
    b = s.encode('utf-8') if isinstance(s, str) else s
    return bytes([len(b)]) + b


def long_str(b):
    b = b.encode('utf-8') if isinstance(b, str) else b
    return struct.pack('>I', len(b)) + b


WIDE_TEXT = ['', 'a', 'é', '€', '\U0001F600', 'key', 'x-max-length', 'Z' * 40, '\x00', 'a b', 'ключ', '{}', 'x-{t}-ttl', '%s', '{0}', '\ufeff', '\ufeffk', ' k', 'k ', '\u200b']


def rand_key(rng):
    c = rng.random()
    if c < 0.08:
        return ''
    if c < 0.12:
        return rng.choice(['k' * 255, 'é' * 127, 'q' * 129])
    return rng.choice(WIDE_TEXT) + str(rng.randint(0, 999))


TS_VALUES = [0, 1, 2 ** 31 - 1, 2 ** 31, 2 ** 32 - 1, 2 ** 32, 2 ** 32 + 1, 4294967296000, 10 ** 12, 1700000000123,
             253402300799999, 253402300799000, 32503680000000, 2 ** 40, 2 ** 47 - 1]
TS_REFUSED = [253402300800000, 253402300800001, 2 ** 48, 2 ** 62, 2 ** 63, 2 ** 64 - 1, 10 ** 18]


def rand_value(rng, depth=3, tag=None):
    """(bytes) of one field value including its tag, well-formed by the grammar"""
    t = tag if tag is not None else rng.choice(TAGS if depth > 0 else b'tbBsuIilLfdDSTV\x00x')
    t = bytes([t]) if isinstance(t, int) else t
    r = rng.random()
    if t == b't':
        return t + bytes([rng.choice([0, 1, 1, 2, 255])])
    if t in b'bB':
        return t + bytes([rng.choice([0, 1, 127, 128, 255, rng.randint(0, 255)])])
    if t in b'su':
        return t + struct.pack('>H', rng.choice([0, 1, 32767, 32768, 65535, rng.randint(0, 65535)]))
    if t in b'Ii':
        return t + struct.pack('>I', rng.choice([0, 1, 2 ** 31 - 1, 2 ** 31, 2 ** 32 - 1, rng.getrandbits(32)]))
    if t == b'l':
        return t + struct.pack('>Q', rng.choice([0, 1, 2 ** 63 - 1, 2 ** 63, 2 ** 64 - 1, rng.getrandbits(64)]))
    if t == b'L':
        return t + struct.pack('>Q', rng.choice([0, 1, 2 ** 63 - 1, rng.getrandbits(63)]))     # < 2^63: statement's domain
    if t == b'f':
        return t + struct.pack('>I', rng.choice([0, 0x80000000, 0x3f800000, 0x7f800000, 0xff800000, 0x7fc00000, 1, 0x007fffff,
                                                 0x00800000, 0x7f7fffff, rng.getrandbits(32)]))
    if t == b'd':
        return t + struct.pack('>Q', rng.choice([0, 1 << 63, 0x3ff0000000000000, 0x7ff0000000000000, 0x7ff8000000000000,
                                                 1, rng.getrandbits(64)]))
    if t == b'D':
        return t + bytes([rng.choice([0, 1, 2, 28, 29, 100, 255])]) + struct.pack(
            '>I', rng.choice([0, 1, 15, 2 ** 31 - 1, 2 ** 31, 2 ** 32 - 1, rng.getrandbits(32)]))
    if t == b'S':
        if r < 0.3:
            raw = rng.choice([b'\xff', b'\xc3', b'\xe2\x82', b'\xed\xa0\x80', b'\xc0\x80', b'ok\xfe', b'\xf4\x90\x80\x80',
                              bytes(rng.getrandbits(8) for _ in range(rng.randint(1, 12)))])
        else:
            raw = (rng.choice(WIDE_TEXT) * rng.randint(0, 3)).encode('utf-8')
        return t + long_str(raw)
    if t == b'x':
        return t + long_str(bytes(rng.getrandbits(8) for _ in range(rng.choice([0, 1, 3, 20]))))
    if t == b'T':
        v = rng.choice(TS_VALUES) if r < 0.7 else rng.randint(0, 253402300799999)
        return t + struct.pack('>Q', v)
    if t in (b'V', b'\x00'):
        return t
    if t == b'A':
        body = b''.join(rand_value(rng, depth - 1) for _ in range(rng.randint(0, 4)))
        return t + struct.pack('>I', len(body)) + body
    if t == b'F':
        return t + rand_table(rng, depth - 1)
    raise ValueError(t)


def rand_table(rng, depth=2, n=None):
    """a field table (4-byte length + entries): keys unsorted, unique"""
    keys = []
    for _ in range(rng.randint(0, 5) if n is None else n):
        k = rand_key(rng)
        if k not in keys and len(k.encode('utf-8')) <= 255:
            keys.append(k)
    rng.shuffle(keys)
    body = b''.join(short_str(k) + rand_value(rng, depth) for k in keys)
    return struct.pack('>I', len(body)) + body


def envelope(ftype, ch, payload):
    return struct.pack('>BHI', ftype, ch, len(payload)) + payload + b'\xce'


INVALID_NAMES = ['a\n', '\n', 'é', 'a!b', 'x' * 200, 'q' * 255, 'tab\there', '\x00', 'amq.*', '€uro']


def rand_arg_wire(rng, cls, name, ty, lenient=True):
    """wire bytes of one non-bit argument; lenient = values the SEND side would refuse are welcome"""
    if ty == 'octet':
        return bytes([rng.randint(0, 255)])
    if ty == 'short':
        return struct.pack('>H', rng.choice([0, 1, 65535, rng.randint(0, 65535)]))
    if ty == 'long':
        return struct.pack('>I', rng.choice([0, 1, 2 ** 31, 2 ** 32 - 1, rng.getrandbits(32)]))
    if ty == 'longlong':
        return struct.pack('>Q', rng.choice([0, 1, 2 ** 63 - 1, rng.getrandbits(63)]))
    if ty == 'shortstr':
        if lenient and rng.random() < 0.5:
            return short_str(rng.choice(INVALID_NAMES))
        return short_str(framegen.short_text(rng))
    if ty == 'longstr':
        if rng.random() < 0.25:
            return long_str(rng.choice([b'\xff\xfe', b'\xc3', b'raw\x80bytes', b'\xed\xa0\x80']))
        return long_str(framegen.gen.rand_text(rng, 50))
    if ty == 'table':
        return rand_table(rng, 2)
    if ty == 'timestamp':
        return struct.pack('>Q', rng.choice(TS_VALUES))
    raise ValueError(ty)


def method_payload(rng, spec_method, lenient=True):
    name, cid, mid, args = spec_method
    out = [struct.pack('>HH', cid, mid)]
    bits = []

    def flush():
        if bits:
            byte = 0
            for i, b in enumerate(bits):
                byte |= b << i
            if lenient and rng.random() < 0.5:
                byte |= (rng.getrandbits(8) << len(bits)) & 0xFF      # reserved high bits set
            out.append(bytes([byte]))
            del bits[:]
    for a, ty, d in args:
        if ty == 'bit':
            bits.append(rng.getrandbits(1))
            if len(bits) == 8:
                flush()
        else:
            flush()
            out.append(rand_arg_wire(rng, name, a, ty, lenient))
    flush()
    return b''.join(out)


def rand_method_frame(rng, spec_method=None, lenient=True):
    sm = spec_method or rng.choice(framegen.METHODS)
    return envelope(1, framegen.rand_channel(rng), method_payload(rng, sm, lenient))


def header_payload(rng, lenient=True, flags=None, extra_words=0):
    props = framegen.PROPS
    if flags is None:
        flags = rng.getrandbits(14) << 2
    body = []
    for i, (n, ty) in enumerate(props):
        if flags & (1 << (15 - i)):
            if n == 'headers':
                body.append(rand_table(rng, 2))
            elif ty == 'octet':
                body.append(bytes([rng.randint(0, 255)]))
            elif ty == 'timestamp':
                body.append(struct.pack('>Q', rng.choice(TS_VALUES)))
            else:
                body.append(short_str(framegen.short_text(rng)))
    word = flags
    if lenient and rng.random() < 0.4:
        word |= 0x0002                              # unused flag bit
    words = b''
    if extra_words:
        word |= 1                                   # continuation bit: another flag word follows
        words = b''.join(struct.pack('>H', 1 if i < extra_words - 1 else 0) for i in range(extra_words))
    weight = rng.choice([0, 0, 1, 65535]) if lenient else 0
    size = rng.choice([0, 1, 2 ** 32, 2 ** 63, 2 ** 64 - 1, rng.getrandbits(64)])
    return struct.pack('>HHQ', 60, weight, size) + struct.pack('>H', word) + words + b''.join(body)


def rand_header_frame(rng, lenient=True, extra_words=0):
    return envelope(2, framegen.rand_channel(rng), header_payload(rng, lenient, extra_words=extra_words))


def rand_body_frame(rng, maxlen=200):
    n = rng.choice([1, 2, 8, rng.randint(1, maxlen)])
    return envelope(3, framegen.rand_channel(rng), bytes(rng.getrandbits(8) for _ in range(n)))


def rand_wire_frame(rng, lenient=True):
    c = rng.random()
    if c < 0.6:
        return rand_method_frame(rng, None, lenient)
    if c < 0.8:
        return rand_header_frame(rng, lenient)
    if c < 0.93:
        return rand_body_frame(rng)
    if c < 0.97:
        return envelope(8, rng.choice([0, 0, 1, 65535]), b'')
    return b'AMQP' + bytes([rng.choice([0, 0, 1, 255]), rng.randint(0, 255), rng.randint(0, 255), rng.randint(0, 255)])
