"""Workloads per property.  A driver only CHOOSES inputs (seeded) and records
what the real code did; every judgement is made by TLC on the recorded trace."""
import itertools

import actions
import framegen
import gen
from abstraction import abstract, as_int

DRIVERS = {}


def driver(name):
    def deco(fn):
        DRIVERS[name] = fn
        return fn
    return deco


def mine(ctx, i):
    """shard assignment of the i-th item of a deterministic enumeration"""
    return i % ctx.nshards == ctx.shard


# ---------------------------------------------------------------------------
# C11  smallest-fit integer ladder, legacy mode
# ---------------------------------------------------------------------------
def c11_ints(ctx):
    s = set(gen.boundary_ints(2))
    if ctx.quick:
        rngs = [range(-1000, 1001), range(32000, 33501), range(65000, 66001), range(-33500, -32000)]
    else:
        rngs = [range(-70000, 70001)]
    for r in rngs:
        s.update(r)
    for k in (62, 63, 64, 65, 70):
        s.add(1 << k)
        s.add(-(1 << k))
        s.add((1 << k) - 1)
    return sorted(s)


def replay_ladder_histories(ctx, props):
    """S2C: TLC-generated toggle/encode histories replayed in ONE interpreter (the switch is real global state,
    so are any caches a change might add)"""
    import json
    path = ctx.gen.get('ladder_hist')
    if not path:
        return
    rec = ctx.rec
    for i, line in enumerate(open(path)):
        if not mine(ctx, i):
            continue
        for step in json.loads(line)['hist']:
            if step['a'] == 'toggle':
                rec.add('Toggle', props, nt=True, **actions.toggle(step['arg']))
            elif step['a'] == 'bad':        # a table the encoder must refuse, in the middle of the history
                from abstraction import concrete
                rec.add('EncodeValue', props, nt=True, **actions.encode_value(concrete(step['v']), 'top'))
            else:
                x = int.from_bytes(bytes(step['mag']), 'big') * (-1 if step['neg'] else 1)
                shape = (i + x) % 3
                v = x if shape == 0 else ([x, {'k': x}] if shape == 1 else {'a': [x]})
                rec.add('EncodeValue', props, nt=True, **actions.encode_value(v, 'top'))
    rec.add('Toggle', props, **actions.toggle('false'))


def replay_small_values(ctx, props, both_modes=False):
    """S2C: every value of the small domain of MC_Values (TLC-generated, bounded-exhaustive), through the real code"""
    import json
    from abstraction import concrete
    path = ctx.gen.get('small_values')
    if not path:
        return
    for i, line in enumerate(open(path)):
        if mine(ctx, i):
            v = concrete(json.loads(line)['v'])
            ctx.rec.add('EncodeValue', props, nt=True, **actions.encode_value(v, 'top'))
    if both_modes:
        ctx.rec.add('Toggle', props, **actions.toggle('true'))
        for i, line in enumerate(open(path)):
            if mine(ctx, i) and i % 4 == 0:
                v = concrete(json.loads(line)['v'])
                ctx.rec.add('EncodeValue', props, nt=True, **actions.encode_value(v, 'top'))
        ctx.rec.add('Toggle', props, **actions.toggle('false'))


def small_frames(ctx):
    """S2C: every frame of the small domain of MC_Frames as real objects: (frame object, abstract)"""
    import json
    from abstraction import concrete_frame
    path = ctx.gen.get('small_frames')
    out = []
    if path:
        for i, line in enumerate(open(path)):
            if mine(ctx, i):
                out.append(concrete_frame(json.loads(line)['f']))
    return out


FIXED = ['short_int', 'short_uint', 'long_int', 'long_uint', 'long_long_int']


@driver('C11')
def drive_c11(ctx):
    rec, rng = ctx.rec, ctx.rng
    P = ['C11']
    ints = [x for i, x in enumerate(c11_ints(ctx)) if mine(ctx, i)]
    extra = [rng.randint(-(1 << 64), 1 << 64) for _ in range(300 if ctx.quick else 3000)]
    extra += [rng.randint(-(1 << 33), 1 << 33) for _ in range(300 if ctx.quick else 3000)]
    if ctx.shard == 2:          # refused whatever their size: beyond float range too (a message formatted through a float overflows)
        extra += [2 ** 1100, -(2 ** 1100), 10 ** 400, -(10 ** 400), 2 ** 1024, 2 ** 1023, 1 << 4000]
    if ctx.shard in (0, 1):
        # an integer right after a number that compares EQUAL to it but is not an integer (7.0, Decimal(7), True) and the
        # other way round, in both modes, alone and as siblings: the ladder is about integers whatever was encoded before
        import decimal as _d11
        for mode in ('false', 'true'):
            rec.add('Toggle', P, **actions.toggle(mode))
            for n_ in (0, 1, 7, 127, 128, 300, 40000, 65535, 65536, 3000000000, -1, -129, -40000):
                others = [float(n_), _d11.Decimal(n_)] + ([bool(n_)] if n_ in (0, 1) else [])
                for o_ in (others if ctx.shard == 0 else others[::-1]):
                    rec.add('EncodeValue', P, nt=True, label='equal-number-first', **actions.encode_value(o_, 'top'))
                    rec.add('EncodeValue', P, nt=True, label='equal-number-first', **actions.encode_value(n_, 'top'))
                    rec.add('EncodeValue', P, nt=True, label='equal-number-first', **actions.encode_value({'a': o_, 'b': n_, 'c': [n_, o_, n_]}, 'table'))
        rec.add('Toggle', P, **actions.toggle('false'))
    for mode in ('false', 'true', 'noarg', 'false'):
        rec.add('Toggle', P, **actions.toggle(mode))
        for x in ints + extra:
            rec.add('EncodeValue', P, nt=-(1 << 63) <= x < (1 << 63), **actions.encode_value(x, 'top'))
        for x in (ints + extra)[::7]:
            rec.add('EncodeValue', P, nt=True, **actions.encode_value([x, {'k': [x, {'n': x}]}], 'top'))
            rec.add('EncodeValue', P, nt=True, **actions.encode_value({'a': x, 'b': [x]}, 'table'))
    # toggle histories interleaved with encodes (the switch is real global state)
    probes = [0, 127, 128, 32767, 32768, 65535, 65536, 2 ** 31 - 1, 2 ** 31, 2 ** 32 - 1, 2 ** 32, -129, -32769, -2 ** 31 - 1]
    for _ in range(200 if ctx.quick else 2000):
        rec.add('Toggle', P, nt=True, **actions.toggle(rng.choice(['true', 'false', 'noarg'])))
        for _ in range(rng.randint(0, 3)):
            x = rng.choice(probes)
            rec.add('EncodeValue', P, nt=True, **actions.encode_value(rng.choice([x, [x], {'k': x}]), 'top'))
    rec.add('Toggle', P, **actions.toggle('false'))
    cross_thread_toggles(ctx, P)
    replay_ladder_histories(ctx, P)
    # fixed-width encoders refuse out-of-range with TypeError
    vals = [x for x in gen.boundary_ints(2)] + [rng.randint(-(1 << 65), 1 << 65) for _ in range(100)]
    for i, x in enumerate(vals):
        if mine(ctx, i):
            for fn in FIXED:
                rec.add('EncodeFixed', P, nt=True, **actions.encode_fixed(fn, x))


# ---------------------------------------------------------------------------
# C03  field values round trip
# ---------------------------------------------------------------------------
LEAVES = [True, False, 0, -1, 127, 128, -128, -129, 255, 65535, 65536, -32769, 2 ** 31, 2 ** 32 - 1, 2 ** 32, 2 ** 63 - 1,
          -2 ** 63, 1.5, 0.1, '', 'a', 'é€\U0001F600', None]


def small_shapes():
    """all container shapes with <= 3 nodes over a few leaf kinds (bounded-exhaustive)"""
    leaves = [True, -1, 128, 0.5, 'é', None]
    out = list(LEAVES)
    for a in leaves:
        out += [[a], {'k': a}, [[a]], [{'k': a}], {'k': [a]}, {'k': {'j': a}}]
        for b in leaves:
            out += [[a, b], {'a': a, 'b': b}, {'b': a, 'a': b}]
    out += [[], {}, [[]], [{}], {'k': []}, {'k': {}}, [[], []], [{}, []]]
    # values that compare equal but differ in type or representation, in every ordered pair
    for grp in gen.CONFUSABLE:
        for a in grp:
            for b in grp:
                out += [[a, b], {'x': a, 'y': b}, [a, [b]], {'k': [a, b]}]
    return out


@driver('C03')
def drive_c03(ctx):
    import datetime
    import decimal
    rec, rng = ctx.rec, ctx.rng
    P = ['C03']
    if ctx.shard == 0:
        ambient_decimal_context(ctx, P)
    if ctx.shard == 3:
        under_legacy(ctx, P, frames=False)
        colliding_long_keys(ctx, P)
    replay_small_values(ctx, P)
    for i, v in enumerate(small_shapes()):
        if mine(ctx, i):
            rec.add('EncodeValue', P, nt=True, **actions.encode_value(v, 'top'))
    for i, x in enumerate(gen.boundary_ints(2)):
        if mine(ctx, i) and -(1 << 63) <= x < (1 << 63):
            rec.add('EncodeValue', P, nt=True, **actions.encode_value(x, 'top'))
    for i, x in enumerate(gen.SPECIAL_FLOATS):
        if mine(ctx, i):
            rec.add('EncodeValue', P, nt=True, **actions.encode_value(x, 'top'))
    n = 400 if ctx.quick else 12000
    for _ in range(n):
        c = rng.random()
        if c < 0.5:
            v, pos = gen.rand_value(rng, 4, 4), 'top'
        elif c < 0.6:
            v, pos = gen.rand_table(rng, 3, 4), 'table'
        elif c < 0.7:
            v, pos = [gen.rand_value(rng, 2, 3) for _ in range(rng.randint(0, 4))], 'array'
        elif c < 0.8:
            v, pos = gen.deep_value(rng, rng.choice([5, 16, 30, 31])), 'top'
        elif c < 0.9:
            v, pos = gen.rand_float(rng), 'top'
        else:
            v, pos = rng.choice([gen.rand_decimal_fitting(rng), gen.rand_datetime_in_range(rng), gen.rand_int(rng)]), 'top'
            if isinstance(v, int) and not -(1 << 63) <= v < (1 << 63):
                continue
        rec.add('EncodeValue', P, nt=True, **actions.encode_value(v, pos))


# ---------------------------------------------------------------------------
# C01 / C02 / C18  frame round trips ;  C04 byte-exact reference
# ---------------------------------------------------------------------------
def method_roundtrips(ctx, props, per_class):
    rec, rng = ctx.rec, ctx.rng
    for sm in framegen.METHODS:
        for _ in range(per_class):
            f = framegen.rand_method(rng, sm)
            rec.add('RoundTrip', props, nt=True, **actions.roundtrip(f, framegen.rand_channel(rng)))


@driver('C01')
def drive_c01(ctx):
    class_failure_pairs(ctx, ['C01'], decode_side=False)
    if ctx.shard == 1:
        under_legacy(ctx, ['C01'], frames='methods')
    if ctx.shard == 2:
        marshal_failure_then(ctx, ['C01'], kinds='methods')
    if ctx.shard == 3:
        reentrant_callbacks(ctx, ['C01'], kinds='methods')
    from pamqp import base as _base
    for f in small_frames(ctx):
        if isinstance(f, _base.Frame):
            for ch in (1, 65535):
                ctx.rec.add('RoundTrip', ['C01'], nt=True, **actions.roundtrip(f, ch))
    method_roundtrips(ctx, ['C01'], 6 if ctx.quick else 120)
    # table arguments holding values that compare equal but differ in type, side by side
    for i, grp in enumerate(gen.CONFUSABLE):
        if mine(ctx, i):
            for a in grp:
                for b in grp:
                    ctx.rec.add('RoundTrip', ['C01'], nt=True, **actions.roundtrip(
                        framegen.class_of('Queue.Declare')(queue='q', arguments={'x-flags': [a, b], 'y': {'m': a, 'n': b}}), 1))
    # frames around and beyond the 128 KiB mark (long strings and tables "up to their length limits")
    from pamqp import commands
    big = [131056, 131057, 200000] if ctx.quick else [131055, 131056, 131057, 131072, 200000, 300001]
    for i, n in enumerate(big):
        if mine(ctx, i):
            ctx.rec.add('RoundTrip', ['C01'], nt=True, **actions.roundtrip(commands.Connection.Secure(challenge='c' * n), 1))
            ctx.rec.add('RoundTrip', ['C01'], nt=True, **actions.roundtrip(
                commands.Queue.Declare(queue='q', arguments={'blob': 'é' * (n // 2), 'n': 5}), 65535))
    # every channel on a rotating class (thorough), boundary channels (quick)
    rng = ctx.rng
    chans = framegen.CHANNELS if ctx.quick else range(ctx.shard, 65536, ctx.nshards)
    for i, ch in enumerate(chans):
        sm = framegen.METHODS[(i + ctx.shard) % len(framegen.METHODS)]
        ctx.rec.add('RoundTrip', ['C01'], nt=True, **actions.roundtrip(framegen.rand_method(rng, sm), ch))


@driver('C02')
def drive_c02(ctx):
    rec, rng = ctx.rec, ctx.rng
    if ctx.shard == 2:
        under_legacy(ctx, ['C02'], frames='headers')
    if ctx.shard == 3:
        marshal_failure_then(ctx, ['C02'], kinds='headers')
    if ctx.shard == 4:
        reentrant_callbacks(ctx, ['C02'], kinds='headers')
    if ctx.shard == 5:
        from pamqp import commands as _c02
        for w_, sz_ in ((0, 0), (0, 1), (1, 0), (65535, 2 ** 64 - 1), (0, 2 ** 63), (7, 255)):
            for pr_ in (_c02.Basic.Properties(), _c02.Basic.Properties(priority=0, content_type='', headers={}),
                        _c02.Basic.Properties(delivery_mode=1, app_id='a', timestamp=gen.rand_datetime_in_range(rng))):
                rec.add('BuildFrame', ['C02'], nt=True, **actions.build_frame('ContentHeader', w_, sz_, pr_))
    reps = 1 if ctx.quick else 8
    for rep in range(reps):
        for subset in range(8192):
            if mine(ctx, subset):
                f = framegen.rand_header(rng, subset)
                rec.add('RoundTrip', ['C02'], nt=True, **actions.roundtrip(f, framegen.rand_channel(rng)))
    for _ in range(150 if ctx.quick else 2000):
        rec.add('RoundTrip', ['C02'], nt=True, **actions.roundtrip(framegen.rand_header(rng), framegen.rand_channel(rng)))
    # the LAST property present ends the payload: values whose encoding ends in the frame-end octet 0xCE
    import datetime as _dt
    from pamqp import commands as _c, header as _h
    ce = {'priority': [206], 'timestamp': [_dt.datetime.fromtimestamp(k * 256 + 206, _dt.timezone.utc) for k in (0, 1, 70000, 2 ** 24 - 1)],
          'headers': [{'k': -50}, {'a': 1, 'z': bytearray(b'\xce')}, {'n': {'m': [-50]}}, {'t': _dt.datetime.fromtimestamp(206, _dt.timezone.utc)}]}
    k = 0
    for last, vals in ce.items():
        for v in vals:
            for extra in range(4 if ctx.quick else 40):
                k += 1
                if not mine(ctx, k):
                    continue
                idx = [p[0] for p in framegen.PROPS].index(last)
                kw = {last: v}
                for n, ty in framegen.PROPS[:idx]:
                    if n != 'cluster_id' and rng.random() < 0.4:
                        kw[n] = framegen.rand_prop_value(rng, n, ty)
                rec.add('RoundTrip', ['C02'], nt=True, **actions.roundtrip(
                    _h.ContentHeader(0, rng.choice([0, 206, 2 ** 40]), _c.Basic.Properties(**kw)), framegen.rand_channel(rng)))


@driver('C18')
def drive_c18(ctx):
    from pamqp import body, header, heartbeat
    rec, rng = ctx.rec, ctx.rng
    P = ['C18']
    from pamqp import base as _base
    for f in small_frames(ctx):
        if not isinstance(f, _base.Frame) and type(f).__name__ != 'ContentHeader':
            rec.add('RoundTrip', P, nt=True, **actions.roundtrip(f, rng.choice([0, 1, 65535])))
    if ctx.shard == 1:
        for triple in ((0, 9, 0), (1, 0, 0), (0, 0, 1), (0, 0, 0), (0, 9, 1), (255, 0, 255), (0, 255, 0), (9, 0, 9), (1, 1, 0), (0, 10, 0)):
            rec.add('BuildFrame', P, nt=True, **actions.build_frame('ProtocolHeader', *triple))
            rec.add('RoundTrip', P, nt=True, label='zero octets', **actions.roundtrip(header.ProtocolHeader(*triple), 0))
        for a_ in (0, 1, 8, 9, 10):
            for b_ in (0, 1, 8, 9, 10):
                for c_ in (0, 1, 8, 9, 10):
                    rec.add('RoundTrip', P, nt=True, label='version cube', **actions.roundtrip(header.ProtocolHeader(a_, b_, c_), 0))
        for raw in (b'\x00', b'', b'0', b'\xce', b'abc', bytes(range(256))):
            if raw:
                rec.add('BuildFrame', P, nt=True, **actions.build_frame('ContentBody', raw))
        marshal_failure_then(ctx, P, kinds='other')
    if ctx.shard == 2:
        from pamqp import frame as _f18
        firsts = [_f18.marshal(header.ProtocolHeader(0, 9, 1), 0), _f18.marshal(header.ProtocolHeader(1, 0, 0), 0), _f18.marshal(heartbeat.Heartbeat(), 0),
                  _f18.marshal(body.ContentBody(b'abc'), 7), _f18.marshal(body.ContentBody(b'AMQP\x00\x00\x09\x01'), 65535)]
        for b1 in firsts:
            for t_ in [b'\x00', b'\xce', b'AMQP', b'x' * 9] + firsts:
                rec.add('Unmarshal', P, nt=True, label='followed-by-more', **actions.unmarshal(b1 + t_))
    lens = list(range(1, 65)) + [4088, 4089, 4095, 4096, 4097, 4104, 65535, 65536]
    if not ctx.quick:
        lens += [131064, 131071, 131072] + [rng.randint(65, 20000) for _ in range(40)]
    for i, n in enumerate(lens):
        if not mine(ctx, i):
            continue
        for pat in range(4):
            if pat == 0:
                b = bytes(rng.getrandbits(8) for _ in range(n))
            elif pat == 1:
                b = b'\xce' * n
            elif pat == 2:
                b = (b'AMQP\x00\x00\x09\x01' + b'\x08\x00\x00\x00\x00\x00\x00\xce' * (n // 8 + 1))[:n]
            else:
                inner = bytes([3, 0, 1, 0, 0, 0, 1, 65, 0xce])
                b = (inner * (n // 9 + 1))[:n]
            if n > 5000 and pat > 1:
                continue
            rec.add('RoundTrip', P, nt=True, **actions.roundtrip(body.ContentBody(b), framegen.rand_channel(rng)))
    chans = framegen.CHANNELS if ctx.quick else range(ctx.shard, 65536, ctx.nshards)
    for ch in chans:
        rec.add('RoundTrip', P, nt=True, **actions.roundtrip(body.ContentBody(bytes(rng.getrandbits(8) for _ in range(8))), ch))
    rec.add('RoundTrip', P, nt=True, **actions.roundtrip(heartbeat.Heartbeat(), 0))
    rec.add('RoundTrip', P, **actions.roundtrip(heartbeat.Heartbeat(), rng.choice([0, 1, 65535])))
    for _ in range(3 if ctx.quick else 60):
        content_session(ctx, P)
    if ctx.shard == 4:
        negotiation_then_content(ctx, P, 'RoundTrip')
    # histories of frames whose (type, channel, size) triples coincide when any field is truncated to 16 bits or
    # shifted into a neighbour: a small body on channel c|1, then a body 65536 bytes longer on channel c, ...
    if ctx.shard in (1, 2, 3):
        c, L = [(6, 65541), (0, 131072), (4, 70000)][ctx.shard - 1]
        small = body.ContentBody(bytes(rng.getrandbits(8) for _ in range(max(1, L - 65536))))
        bigb = bytes(rng.getrandbits(8) for _ in range(L))
        rec.add('RoundTrip', P, nt=True, **actions.roundtrip(small, c | 1))
        rec.add('RoundTrip', P, nt=True, **actions.roundtrip(body.ContentBody(bigb), c))
        rec.add('RoundTrip', P, nt=True, **actions.roundtrip(body.ContentBody(bigb), c | 2))
        rec.add('RoundTrip', P, nt=True, **actions.roundtrip(small, c))
    # protocol header: each octet 0..255 exhaustively (768), random triples, pairs (thorough)
    triples = []
    for pos in range(3):
        for x in range(256):
            t = [rng.randint(0, 255) for _ in range(3)]
            t[pos] = x
            triples.append(tuple(t))
    triples += [(0, 9, 1), (0, 0, 0), (255, 255, 255)]
    if not ctx.quick:
        triples += [(a, b, rng.randint(0, 255)) for a in range(256) for b in range(256)]
    for i, t in enumerate(triples):
        if mine(ctx, i):
            rec.add('RoundTrip', P, nt=True, **actions.roundtrip(header.ProtocolHeader(*t), 0))


@driver('C04')
def drive_c04(ctx):
    from pamqp import heartbeat, header
    rec, rng = ctx.rec, ctx.rng
    P = ['C04']
    if ctx.shard in (9, 10, 11):       # FIRST in this interpreter: a refused marshal as the first use of each class, then a valid one
        class_failure_pairs(ctx, P, decode_side=False)
    if ctx.shard == 2:
        ambient_decimal_context(ctx, P)
    for f in small_frames(ctx):
        rec.add('RoundTrip', P, nt=True, **actions.roundtrip(f, rng.choice([1, 65535])))
    replay_small_values(ctx, P, both_modes=True)
    method_roundtrips(ctx, P, 3 if ctx.quick else 60)
    for _ in range(120 if ctx.quick else 3000):
        rec.add('RoundTrip', P, nt=True, **actions.roundtrip(framegen.rand_header(rng), framegen.rand_channel(rng)))
    for _ in range(60 if ctx.quick else 1500):
        rec.add('RoundTrip', P, nt=True, **actions.roundtrip(framegen.rand_body(rng, 2000), framegen.rand_channel(rng)))
    rec.add('RoundTrip', P, nt=True, **actions.roundtrip(heartbeat.Heartbeat(), 0))
    for _ in range(10):
        rec.add('RoundTrip', P, nt=True, **actions.roundtrip(
            header.ProtocolHeader(rng.randint(0, 255), rng.randint(0, 255), rng.randint(0, 255)), 0))
    for _ in range(300 if ctx.quick else 8000):
        v = gen.rand_value(rng, 4, 4)
        rec.add('EncodeValue', P, nt=True, **actions.encode_value(v, 'top'))
    for mode in ('true', 'false'):
        rec.add('Toggle', P, **actions.toggle(mode))
        for _ in range(60 if ctx.quick else 800):
            rec.add('EncodeValue', P, nt=True, **actions.encode_value(gen.rand_table(rng, 3, 4), 'table'))
    # direct Frame.marshal() / Basic.Properties.marshal() / primitive encoders
    for _ in range(100 if ctx.quick else 3000):
        rec.add('MarshalPart', P, nt=True, **actions.marshal_part(framegen.rand_method(rng)))
        rec.add('MarshalPart', P, nt=True, **actions.marshal_part(framegen.rand_header(rng).properties))
    if ctx.shard == 3:
        unrepresentable_strings(ctx, P)
    if ctx.shard == 4:
        exotic_but_accepted(ctx, P)
    if ctx.shard == 5:
        under_legacy(ctx, P)
    if ctx.shard == 6:
        colliding_long_keys(ctx, P)
    if ctx.shard == 7:
        marshal_failure_then(ctx, P)
        decode_mutate_encode(ctx, P)
    if ctx.shard == 12:
        reentrant_callbacks(ctx, P)
    if ctx.shard == 8:
        from pamqp import body as _b04
        for n_ in (131063, 131064, 131065, 131072, 200000):       # whatever its size, one ContentBody is ONE frame
            rec.add('RoundTrip', P, nt=True, label='large body', **actions.roundtrip(_b04.ContentBody(bytes((i * 3 + n_) % 256 for i in range(509)) * (n_ // 509) + b'z' * (n_ % 509)), 9))

    for _ in range(200 if ctx.quick else 5000):
        ty = rng.choice(['octet', 'short', 'long', 'longlong', 'shortstr', 'longstr', 'table', 'timestamp'])
        if ty == 'timestamp':
            v = framegen.rand_prop_value(rng, 'timestamp', 'timestamp')
        elif ty == 'table':
            v = gen.rand_table(rng, 2, 3)
        else:
            v = framegen.valid_arg(rng, '-', '-', ty)
        rec.add('EncodeArg', P, nt=True, **actions.encode_arg(ty, v))


# ---------------------------------------------------------------------------
# C14 / C17  static traces: the generated catalogue, reply codes, constants
# ---------------------------------------------------------------------------
def _amqp_type(cls, a):
    """the wire type of an argument through the PUBLIC accessor only"""
    try:
        return str(cls.amqp_type(a))
    except Exception:  # noqa
        return '<missing>'


def doc_defaults(cls):
    """{param: token} parsed from the class docstring ('- Default: ``X``')"""
    import re
    doc = cls.__doc__ or ''
    out = {}
    cur = None
    for line in doc.splitlines():
        m = re.match(r'\s*:param (\w+):', line)
        if m:
            cur = m.group(1)
            continue
        m = re.match(r'\s*- Default: ``(.*)``\s*$', line)
        if m and cur:
            out[cur] = m.group(1)
        if re.match(r'\s*:(type|raises|rtype)', line):
            pass
    return out


@driver('C14')
def drive_c14(ctx):
    from pamqp import commands
    rec = ctx.rec
    P = ['C14']
    if ctx.shard != 0:
        return
    items = list(commands.INDEX_MAPPING.items())
    # questions a class must REFUSE, asked before anything else: every class is asked for the wire type, the item and the
    # membership of every argument name of the OTHER classes (what a refusal leaves behind must not answer later questions)
    allnames = sorted({a for _, c in items if isinstance(c, type) for a in getattr(c, '__slots__', []) if isinstance(a, str)})
    for _, c in items:
        if not isinstance(c, type):
            continue
        own = set(x for x in getattr(c, '__slots__', []) if isinstance(x, str))
        for a in allnames:
            if a in own:
                continue
            try:
                c.amqp_type(a)
            except Exception:  # noqa
                pass
    rec.add('MappingKeys', P, nt=True, keys=sorted(as_int(k) for k, _ in items), n=len(items))
    for key, cls in items:
        slots = [x if isinstance(x, str) else repr(x) for x in cls.__slots__]      # (whatever the catalogue holds is reported, never assumed)
        try:
            first = cls()
            for a in slots:          # in-place changes to the first instance's containers must not reach a later default
                x = getattr(first, a, None)
                if isinstance(x, dict):
                    x['x-verif'] = 1
                elif isinstance(x, list):
                    x.append('x-verif')
            o = cls()
            defaults = []
            for a in slots:
                try:
                    defaults.append(abstract(getattr(o, a)))
                except AttributeError:
                    defaults.append({'t': 'other', 'name': '<unset>'})
        except Exception as e:  # noqa
            defaults = [{'t': 'other', 'name': 'ctor:' + type(e).__name__} for _ in slots]
        docs = doc_defaults(cls)
        types = []
        for a in slots:
            try:
                types.append(str(cls.amqp_type(a)))
            except Exception:  # noqa
                types.append('<missing>')
        # the constructor takes its arguments POSITIONALLY in wire order: distinct valid values passed by position are
        # read back by name
        pos_in, pos_back = [], []
        sm_ = [m for m in framegen.METHODS if m[0] == str(cls.name)]
        if sm_ and slots:
            kw_ = framegen.method_kwargs(ctx.rng, sm_[0])
            for a_, ty_, d_ in sm_[0][3]:          # (a table argument given as None / {} is stored as a fresh {}: not a probe value)
                if ty_ == 'table' and not kw_.get(a_):
                    kw_[a_] = {'probe': 1}
            if all(a in kw_ for a in slots):
                try:
                    po = cls(*[kw_[a] for a in slots])
                    pos_in = [abstract(kw_[a]) for a in slots]
                    pos_back = [abstract(getattr(po, a, None)) for a in slots]
                except Exception as e:  # noqa
                    pos_in = [abstract(kw_[a]) for a in slots]
                    pos_back = [{'t': 'other', 'name': 'ctor:' + type(e).__name__} for _ in slots]
        # ... and an argument that IS given is stored as given, also when it is falsy (0, '', False, {}): a default is for
        # omitted arguments only
        if sm_ and slots and pos_in and pos_back and pos_back[0].get('name', '')[:5] != 'ctor:':
            FALSY = {'bit': False, 'octet': 0, 'short': 0, 'long': 0, 'longlong': 0, 'shortstr': '', 'longstr': '', 'table': {}}
            tys = {a_: ty_ for a_, ty_, d_ in sm_[0][3]}
            if all(tys.get(a) in FALSY for a in slots):
                try:
                    fo = cls(**{a: FALSY[tys[a]] for a in slots})
                    pos_in = pos_in + [abstract(FALSY[tys[a]]) for a in slots]
                    pos_back = pos_back + [abstract(getattr(fo, a, None)) for a in slots]
                except ValueError:      # (a falsy value may break a send-side constraint: then there is nothing to read back)
                    pass
        rec.add('CatalogEntry', P, nt=True, sigx=str(cls.name), key=as_int(key), name=str(cls.name), frame_id=as_int(cls.frame_id), index=as_int(cls.index),
                slots=slots, types=types, sync=bool(cls.synchronous), sync_is_bool=isinstance(cls.synchronous, bool),
                responses=[str(x) for x in cls.valid_responses], defaults=defaults,
                docs=[docs.get(a, '') for a in slots], attributes=[x if isinstance(x, str) else repr(x) for x in cls.attributes()], pos_in=pos_in, pos_back=pos_back)
    pr = commands.Basic.Properties
    slots = list(pr.__slots__)
    o = pr()
    rec.add('PropertiesEntry', P, nt=True, name=str(pr.name), frame_id=as_int(pr.frame_id), index=as_int(pr.index), slots=slots,
            types=[str(pr.amqp_type(a)) for a in slots], flags=[as_int(pr.flags.get(a, -1)) for a in slots],
            nflags=len(pr.flags), defaults=[abstract(getattr(o, a)) for a in slots])
    for cname, cid, _ in framegen.cat.CATALOG:
        k = getattr(commands, cname)
        rec.add('ClassEntry', P, nt=True, name=cname, frame_id=as_int(k.frame_id), index=as_int(k.index))
    # the catalogue is constant under use: decode / re-encode a few hundred frames of every kind (also ones a peer may
    # send and this side would not: deprecated fields set, cluster_id present), then read the whole catalogue AGAIN
    import wiregen
    from pamqp import frame as _frame
    urng = ctx.rng
    for _ in range(150 if ctx.quick else 1500):
        try:
            n_, ch_, fo = actions.unmarshal3(wiregen.rand_wire_frame(urng, lenient=True))
            _frame.marshal(fo, ch_)
        except Exception:  # noqa
            pass
        try:
            f_, c_ = framegen.rand_frame(urng)
            actions.unmarshal3(_frame.marshal(f_, c_))
        except Exception:  # noqa
            pass
    for label, b in itertools.islice(fuzz_inputs(ctx, 1), 0, None, 17 if ctx.quick else 3):
        try:
            actions.unmarshal3(b)
        except Exception:  # noqa
            pass
    # ordinary application use of a class hierarchy: subclasses of the command classes (plain, with extra attributes, with
    # their own name / replies) and of Basic.Properties are defined and used; the catalogue still maps every index to the
    # specification's class
    for _k, _c in list(commands.INDEX_MAPPING.items()):
        if not isinstance(_c, type):
            continue
        try:
            sub1 = type('App' + _c.__name__, (_c,), {'__slots__': []})
            sub2 = type('Audited' + _c.__name__, (_c,), {'__slots__': [], 'name': 'App.' + _c.__name__, 'valid_responses': ['App.Reply'], 'synchronous': True})
            sub1()
            sub2()
        except Exception:  # noqa
            pass
    try:
        type('AppProperties', (commands.Basic.Properties,), {'__slots__': []})()
    except Exception:  # noqa
        pass
    items2 = list(commands.INDEX_MAPPING.items())
    rec.add('MappingKeys', P, nt=True, second_pass=True, keys=sorted(as_int(k) for k, _ in items2), n=len(items2))
    for key, cls in items2:
        if not isinstance(cls, type):     # (the keys event above already differs from the first pass)
            continue
        slots = [x if isinstance(x, str) else repr(x) for x in cls.__slots__]
        rec.add('CatalogEntry', P, nt=True, second_pass=True, sigx=str(cls.name), key=as_int(key), name=str(cls.name),
                frame_id=as_int(cls.frame_id), index=as_int(cls.index), slots=slots,
                types=[_amqp_type(cls, a) for a in slots], sync=bool(cls.synchronous),
                sync_is_bool=isinstance(cls.synchronous, bool), responses=[str(x) for x in cls.valid_responses],
                defaults=[], docs=[], attributes=[x if isinstance(x, str) else repr(x) for x in cls.attributes()])
    slots = list(pr.__slots__)
    o = pr()
    rec.add('PropertiesEntry', P, nt=True, second_pass=True, name=str(pr.name), frame_id=as_int(pr.frame_id), index=as_int(pr.index),
            slots=slots, types=[_amqp_type(pr, a) for a in slots],
            flags=[as_int(pr.flags.get(a, -1)) for a in slots], nflags=len(pr.flags),
            defaults=[abstract(getattr(o, a, None)) for a in slots])
    # the RPC metadata in use: a client that decides ONLY from the class attributes (Rpc.tla)
    rng = ctx.rng
    classes = [c for _, c in items]
    byname = {c.name: c for c in classes}
    for _ in range(30 if ctx.quick else 600):
        rec.add('RpcReset', P)
        pend = {}
        for _ in range(rng.randint(3, 12)):
            ch = rng.randint(0, 7)
            if ch in pend:
                want = list(pend[ch].valid_responses)
                name = rng.choice(want) if want and rng.random() < 0.5 else rng.choice(classes).name
                accepted = name in pend[ch].valid_responses
                rec.add('RpcRecv', P, nt=True, ch=ch, name=str(name), accepted=bool(accepted))
                if accepted:
                    del pend[ch]
            else:
                cls = rng.choice(classes)
                waits = bool(cls.synchronous)
                rec.add('RpcSend', P, nt=True, ch=ch, name=str(cls.name), waits=waits)
                if waits:
                    pend[ch] = cls


@driver('C17')
def drive_c17(ctx):
    from pamqp import constants, exceptions
    rec = ctx.rec
    P = ['C17']
    if ctx.shard != 0:
        return
    items = list(exceptions.CLASS_MAPPING.items())
    rec.add('ReplyKeys', P, nt=True, keys=sorted(as_int(k) for k, _ in items), classes=sorted(set(str(getattr(c, '__name__', repr(c))) for _, c in items)))
    for key, cls in items:
        rec.add('ReplyCode', P, nt=True, key=as_int(key), value=as_int(getattr(cls, 'value', None)), name=str(getattr(cls, 'name', '<missing>')), cls=str(getattr(cls, '__name__', repr(cls))),
                soft=(isinstance(cls, type) and issubclass(cls, exceptions.AMQPSoftError)), hard=(isinstance(cls, type) and issubclass(cls, exceptions.AMQPHardError)),
                amqp=(isinstance(cls, type) and issubclass(cls, exceptions.AMQPError)), base=(isinstance(cls, type) and issubclass(cls, exceptions.PAMQPException)),
                is_exc=(isinstance(cls, type) and issubclass(cls, Exception)))
    def _l(x):
        try:
            return [as_int(v) for v in x]
        except TypeError:
            return [-1]
    def constants_event(**extra):
        rec.add('Constants', P, nt=True, **extra, c={
            'FRAME_METHOD': as_int(constants.FRAME_METHOD), 'FRAME_HEADER': as_int(constants.FRAME_HEADER),
            'FRAME_BODY': as_int(constants.FRAME_BODY), 'FRAME_HEARTBEAT': as_int(constants.FRAME_HEARTBEAT),
            'FRAME_MIN_SIZE': as_int(constants.FRAME_MIN_SIZE), 'FRAME_END': as_int(constants.FRAME_END),
            'FRAME_HEADER_SIZE': as_int(constants.FRAME_HEADER_SIZE), 'FRAME_MAX_SIZE': as_int(constants.FRAME_MAX_SIZE),
            'VERSION': _l(constants.VERSION), 'AMQP': _l(constants.AMQP),
            'FRAME_END_CHAR': _l(constants.FRAME_END_CHAR), 'REPLY_SUCCESS': as_int(constants.REPLY_SUCCESS)})
    constants_event()
    rec.add('UnmarshalingExc', P, nt=True, base=issubclass(exceptions.UnmarshalingException, exceptions.PAMQPException),
            amqp=issubclass(exceptions.UnmarshalingException, exceptions.AMQPError))
    # every code 0..700 looked up in the three ways a client can (subscript, in, get); then the whole table AGAIN:
    # looking codes up must not change what any code maps to
    sub_ok, cont, get_ok, other = [], [], [], []
    for code in range(0, 701):
        try:
            exceptions.CLASS_MAPPING[code]
            sub_ok.append(code)
        except KeyError:
            pass
        except Exception:  # noqa
            other.append(code)
        if code in exceptions.CLASS_MAPPING:
            cont.append(code)
        if exceptions.CLASS_MAPPING.get(code) is not None:
            get_ok.append(code)
    rec.add('UndefinedCodes', P, nt=True, subscript_ok=sub_ok, contains=cont, get_ok=get_ok, other_exc=other)
    # every class is RAISED the ways a client raises it (no argument, a text, code and text, three arguments) and caught as the
    # library's common base
    for key, cls in items:
        if not isinstance(cls, type):
            continue
        bad_ = []
        for args_ in ((), ('NOT_FOUND - no queue',), (key, 'SYNTAX_ERROR - bad'), (key, 'text', 50), (key, 40, 20), ('abcd', 'efgh')):
            try:
                try:
                    raise cls(*args_)
                except exceptions.PAMQPException:
                    pass
            except BaseException as e_:  # noqa
                bad_.append('%d args: %s' % (len(args_), type(e_).__name__))
        if bad_:
            rec.add('ReplyCode', P, nt=True, via='raise and catch: ' + '; '.join(bad_)[:200], key=as_int(key), value=as_int(getattr(cls, 'value', None)),
                    name=str(getattr(cls, 'name', '<missing>')), cls=str(getattr(cls, '__name__', repr(cls))),
                    soft=issubclass(cls, exceptions.AMQPSoftError), hard=issubclass(cls, exceptions.AMQPHardError),
                    amqp=issubclass(cls, exceptions.AMQPError), base=False, is_exc=issubclass(cls, Exception))
    # one code after another by FRESH integer objects (as read from a decoded Close frame), every ordered pair of specified
    # codes: each lookup answers for its own code
    codes_ = [k for k, _ in items if isinstance(k, int)]
    for a_ in codes_:
        for b_ in codes_:
            if a_ == b_:
                continue
            got_ = []
            for c_ in (a_, b_):
                try:
                    cl_ = exceptions.CLASS_MAPPING[int(str(c_))]
                    got_.append((c_, cl_))
                except Exception:  # noqa
                    got_.append((c_, None))
            c_, cl_ = got_[1]
            if cl_ is None or getattr(cl_, 'value', None) != c_:
                rec.add('ReplyCode', P, nt=True, via='lookup after %d' % a_, key=as_int(c_), value=as_int(getattr(cl_, 'value', None)),
                        name=str(getattr(cl_, 'name', '<missing>')), cls=str(getattr(cl_, '__name__', repr(cl_))),
                        soft=(isinstance(cl_, type) and issubclass(cl_, exceptions.AMQPSoftError)), hard=(isinstance(cl_, type) and issubclass(cl_, exceptions.AMQPHardError)),
                        amqp=(isinstance(cl_, type) and issubclass(cl_, exceptions.AMQPError)), base=(isinstance(cl_, type) and issubclass(cl_, exceptions.PAMQPException)),
                        is_exc=(isinstance(cl_, type) and issubclass(cl_, Exception)))
    # keys that are not integers (a code read from text, a Decimal, bytes, a float, None): whatever the answer, the table
    # read afterwards is still the specification's
    import decimal as _d17
    for code in (404, 320, 504, 200, 311, 541):
        for k_ in (str(code), ' %d ' % code, str(code).encode(), _d17.Decimal(code), float(code), code + 0.5, [code], (code,), None, True):
            for look in (lambda m, k: m[k], lambda m, k: m.get(k), lambda m, k: k in m):
                try:
                    look(exceptions.CLASS_MAPPING, k_)
                except Exception:  # noqa
                    pass
    # ordinary application use of an exception hierarchy: subclasses of the reply-code classes (plain, with a second
    # base, with their own value) are defined; the catalogue must still map every code to the specification's class
    for _k, _c in list(exceptions.CLASS_MAPPING.items()):
        try:
            type('App' + _c.__name__, (_c,), {})
            type('App2' + _c.__name__, (_c, exceptions.AMQPSoftError if issubclass(_c, exceptions.AMQPSoftError) else exceptions.AMQPHardError), {})
            type('App3' + _c.__name__, (_c,), {'value': 310, 'name': 'NOT-DELIVERED'})
        except TypeError:
            pass
    # ... and ordinary use of the codec: protocol headers of every neighbouring version decoded and built, a storm of
    # everything else; the constants and the table are read AGAIN afterwards
    from pamqp import frame as _frame17, header as _header17
    for mj in (0, 1, 8, 9, 255):
        for mn in (0, 8, 9, 10, 91, 255):
            for rv in (0, 1, 2, 9, 255):
                try:
                    actions.unmarshal3(b'AMQP\x00' + bytes([mj, mn, rv]))
                    _frame17.marshal(_header17.ProtocolHeader(mj, mn, rv), 0)
                    _header17.ProtocolHeader().unmarshal(b'AMQP\x00' + bytes([mj, mn, rv]))
                except Exception:  # noqa
                    pass
    for bad in (b'AMQP', b'AMQP\x01\x01\x08\x00', b'AMQP\x00\x00\x09', b'AMQQ\x00\x00\x09\x01'):
        try:
            actions.unmarshal3(bad)
        except Exception:  # noqa
            pass
    generic_storm(ctx)
    constants_event(second_pass=True)
    items = list(exceptions.CLASS_MAPPING.items())
    rec.add('ReplyKeys', P, nt=True, keys=sorted(as_int(k) for k, _ in items), classes=sorted(set(str(getattr(c, '__name__', repr(c))) for _, c in items)))
    for key, cls in items:
        rec.add('ReplyCode', P, nt=True, second_pass=True, key=as_int(key), value=as_int(getattr(cls, 'value', None)), name=str(getattr(cls, 'name', '<missing>')), cls=str(getattr(cls, '__name__', repr(cls))),
                soft=(isinstance(cls, type) and issubclass(cls, exceptions.AMQPSoftError)), hard=(isinstance(cls, type) and issubclass(cls, exceptions.AMQPHardError)),
                amqp=(isinstance(cls, type) and issubclass(cls, exceptions.AMQPError)), base=(isinstance(cls, type) and issubclass(cls, exceptions.PAMQPException)),
                is_exc=(isinstance(cls, type) and issubclass(cls, Exception)))


# ---------------------------------------------------------------------------
# C05  decoder accepts every well-formed wire frame (grammar-side generation)
# ---------------------------------------------------------------------------
@driver('C05')
def drive_c05(ctx):
    import struct
    import wiregen
    rec, rng = ctx.rec, ctx.rng
    P = ['C05']
    class_failure_pairs(ctx, P, encode_side=False)
    header_failure_pairs(ctx, P, 4 if ctx.quick else 60)
    if ctx.shard == 1:
        # received decimals decoded under whatever decimal context the application runs with
        import decimal as _d05
        for prec_, trap_ in ((1, False), (3, False), (6, True), (50, False)):
            with _d05.localcontext() as c_:
                c_.prec = prec_
                if trap_:
                    c_.traps[_d05.Inexact] = True
                for scale_, raw_ in ((2, 1234567), (4, 12345678), (0, 2147483647), (10, 0x7FFFFFFF), (255, 1), (3, 0xFFFFFEC6), (28, 5)):
                    val = b'D' + bytes([scale_]) + struct.pack('>I', raw_)
                    rec.add('DecodeValue', P, nt=True, label='decimal-context', **actions.decode_value(val, 'top'))
                    tbl_ = b'\x05price' + val
                    fr_ = wiregen.envelope(1, 1, struct.pack('>HH', 50, 10) + b'\x00\x00' + b'\x01q' + b'\x00' + struct.pack('>I', len(tbl_)) + tbl_)
                    rec.add('Unmarshal', P, nt=True, label='decimal-context', wf=True, **actions.unmarshal(fr_))
    n = 1 if ctx.quick else 12
    # every tag, boundary payloads
    for tag in wiregen.TAGS:
        for _ in range(12 * n):
            rec.add('DecodeValue', P, nt=True, **actions.decode_value(wiregen.rand_value(rng, 3, tag), 'top'))
    for _ in range(150 * n):
        rec.add('DecodeValue', P, nt=True, **actions.decode_value(wiregen.rand_table(rng, 3), 'table'))
    for _ in range(60 * n):
        body = b''.join(wiregen.rand_value(rng, 2) for _ in range(rng.randint(0, 5)))
        rec.add('DecodeValue', P, nt=True, **actions.decode_value(struct.pack('>I', len(body)) + body, 'array'))
    for i, v in enumerate(wiregen.TS_VALUES + wiregen.TS_REFUSED):
        if mine(ctx, i):
            rec.add('DecodeValue', P, nt=True, **actions.decode_value(b'T' + struct.pack('>Q', v), 'top'))
    for _ in range(20 * n):
        v = rng.choice([rng.randint(2 ** 32, 253402300799999), rng.randint(253402300800000, 2 ** 64 - 1)])
        rec.add('DecodeValue', P, nt=True, **actions.decode_value(b'T' + struct.pack('>Q', v), 'top'))
    # frames: all 64 methods, headers (unused flag bit, weight, several flag words), bodies, heartbeat, protocol header
    for sm in framegen.METHODS:
        for _ in range(3 * n):
            rec.add('Unmarshal', P, nt=True, sigx=sm[0], **actions.unmarshal(wiregen.rand_method_frame(rng, sm)))
    for _ in range(120 * n):
        rec.add('Unmarshal', P, nt=True, sigx='header', **actions.unmarshal(wiregen.rand_header_frame(rng)))
    for _ in range(10 * n):
        rec.add('Unmarshal', P, nt=True, sigx='header-flagwords', **actions.unmarshal(
            wiregen.rand_header_frame(rng, True, extra_words=rng.choice([1, 2]))))
    for _ in range(40 * n):
        rec.add('Unmarshal', P, nt=True, sigx='other', **actions.unmarshal(wiregen.rand_wire_frame(rng)))


# ---------------------------------------------------------------------------
# C07  strict prefixes of valid frames
# ---------------------------------------------------------------------------
def corpus_frames(ctx, n, big=False):
    """complete valid frames (bytes) of all kinds produced by the library's own encoder and by the grammar"""
    import wiregen
    from pamqp import frame, heartbeat, header
    rng = ctx.rng
    out = []
    for i, sm in enumerate(framegen.METHODS):
        if mine(ctx, i) or not ctx.quick:
            f = framegen.rand_method(rng, sm)
            try:
                out.append(frame.marshal(f, framegen.rand_channel(rng)))
            except Exception:  # noqa
                pass
    out.append(frame.marshal(heartbeat.Heartbeat(), 0))
    out.append(frame.marshal(header.ProtocolHeader(), 0))
    while len(out) < n:
        c = rng.random()
        try:
            if c < 0.5:
                f, ch = framegen.rand_frame(rng)
                out.append(frame.marshal(f, ch))
            else:
                out.append(wiregen.rand_wire_frame(rng, lenient=False))
        except Exception:  # noqa
            pass
    if big:
        from pamqp import body
        for ln in (4096, 131064):
            out.append(frame.marshal(body.ContentBody(bytes(rng.getrandbits(8) for _ in range(ln))), 1))
    return out


def strategic_cuts(rng, n):
    s = set(range(0, min(n, 24))) | set(range(max(0, n - 16), n)) | {n // 2, n // 3}
    s |= {rng.randrange(n) for _ in range(24)}
    return sorted(x for x in s if 0 <= x < n)


@driver('C07')
def drive_c07(ctx):
    rec, rng = ctx.rec, ctx.rng
    from pamqp import frame as _frame
    frames = corpus_frames(ctx, 24 if ctx.quick else 330, big=not ctx.quick and ctx.shard == 0)
    for f in small_frames(ctx):
        try:
            frames.append(_frame.marshal(f, 258))
        except Exception:  # noqa
            pass
    if ctx.shard == 0:          # method and content-header frames beyond 128 KiB, cut at strategic points
        from pamqp import commands as _c, header as _h
        frames.append(_frame.marshal(_c.Connection.Secure(challenge='c' * 140000), 1))
        frames.append(_frame.marshal(_h.ContentHeader(0, 1, _c.Basic.Properties(headers={'blob': 'h' * 135000})), 2))
    for b in frames:
        cuts = None if len(b) <= (700 if ctx.quick else 4200) else strategic_cuts(rng, len(b))
        rec.add('CutSet', ['C07'], nt=len(b) > 8, sigx='type%d' % b[0], **actions.cutset(b, cuts))
    # the same through ONE reused bytearray receive buffer, short frames first (their bytes are what is left behind),
    # with bodies that carry the frame-end octet at the places a stale, shorter frame would end
    from pamqp import body as _body, heartbeat as _hb
    short = [_frame.marshal(_hb.Heartbeat(), 0), _frame.marshal(_body.ContentBody(b'abc'), 1), _frame.marshal(_body.ContentBody(b'\xce'), 1)]
    longer = [_frame.marshal(_body.ContentBody(b'\xce' * n), 1) for n in (4, 12, 40)] + \
             [_frame.marshal(_body.ContentBody(b'abc\xce' + b'\xce' * 20), 1)]
    for b in short + longer + [x for x in frames if len(x) <= 300][:20 if ctx.quick else 200]:
        rec.add('CutSet', ['C07'], nt=True, sigx='reused-buffer', **actions.cutset(b, None, reuse=True))
    stale_header_pairs(ctx, ['C07'])
    truncated_size_prefixes(ctx, ['C07'])


# ---------------------------------------------------------------------------
# C20  header peek
# ---------------------------------------------------------------------------
@driver('C20')
def drive_c20(ctx):
    rec, rng = ctx.rec, ctx.rng
    P = ['C20']
    for n in range(0, 17):
        for _ in range(4):
            if mine(ctx, n):
                rec.add('FrameParts', P, nt=True, **actions.frame_parts(bytes(rng.getrandbits(8) for _ in range(n))))
    k = 0
    for pos in range(7):
        for x in range(256):
            k += 1
            if not mine(ctx, k):
                continue
            b = bytearray(rng.getrandbits(8) for _ in range(7))
            b[pos] = x
            tail = bytes(rng.getrandbits(8) for _ in range(rng.choice([0, 0, 1, 5, 40])))
            rec.add('FrameParts', P, nt=True, **actions.frame_parts(bytes(b) + tail))
    for _ in range(20):
        b = bytes([rng.choice([128, 255, 200])]) + bytes([rng.choice([128, 255]), rng.getrandbits(8)]) + \
            bytes([rng.choice([128, 255, 0x80]), rng.getrandbits(8), rng.getrandbits(8), rng.getrandbits(8)])
        rec.add('FrameParts', P, nt=True, **actions.frame_parts(b + b'tail'))
    for _ in range(40 if ctx.quick else 1500):
        f, ch = framegen.rand_frame(rng)
        if type(f).__name__ == 'ProtocolHeader':
            continue
        tail = bytes(rng.getrandbits(8) for _ in range(rng.choice([0, 1, 7, 8, 30])))
        ev = actions.peek(f, ch, tail)
        if ev is not None:
            rec.add('Peek', P, nt=True, **ev)
    if ctx.shard == 3:
        marshal_failure_then(ctx, P, action='Peek')
    if ctx.shard == 2:
        import struct as _st20
        # the peek reads 7 bytes and nothing else: buffers that continue past the announced payload, whatever stands where a
        # frame-end octet would be
        for t in (0, 1, 2, 3, 8, 255):
            for size in (0, 1, 2, 5):
                for endb in (0x00, 0xCD, 0xCE, 0xFF):
                    for extra in (b'', b'\xce', b'more'):
                        b = _st20.pack('>BHI', t, 7, size) + b'p' * size + bytes([endb]) + extra
                        rec.add('FrameParts', P, nt=True, label='end-octet-in-view', **actions.frame_parts(b))
    if ctx.shard == 4:
        from pamqp import heartbeat as _hb2
        for ch in (0, 1, 5, 255, 256, 65535):       # a heartbeat marshalled "on" any channel is still a frame the decoder takes
            rec.add('Peek', P, nt=True, **actions.peek(_hb2.Heartbeat(), ch, b''))
            rec.add('Peek', P, nt=True, **actions.peek(_hb2.Heartbeat(), ch, b'\x08\x00'))
    # frames around and beyond 128 KiB: whatever the encoder produces, size + 8 bytes is what the decoder takes
    from pamqp import body as _body, commands as _commands
    for i, n in enumerate([131063, 131064, 131065, 200000] if ctx.quick else [131063, 131064, 131065, 131072, 200000, 400000]):
        if mine(ctx, i):
            ev = actions.peek(_body.ContentBody(bytes(rng.getrandbits(8) for _ in range(64)) * (n // 64) + b'z' * (n % 64)), 7, b'tail')
            rec.add('Peek', P, nt=True, **ev)
            ev = actions.peek(_commands.Connection.StartOk(response='r' * n), 0, b'')
            rec.add('Peek', P, nt=True, **ev)
    if ctx.shard == 6:
        negotiation_then_content(ctx, P, 'Peek')
    # a body frame whose bytes 4..7 spell "AMQP" (size 0x414D51, first payload octet 'P') and near misses
    if ctx.shard == 5:
        for n, first in ((0x414D51, b'P'), (0x414D51, b'Q'), (0x414D50, b'P')):
            ev = actions.peek(_body.ContentBody(first + bytes((i * 7 + 3) % 251 for i in range(n - 1))), 9, b'tail')
            rec.add('Peek', P, nt=True, **ev)
    # the size-reading receiver on whole streams (Stream.tla, Mode = "peek")
    for _ in range(4 if ctx.quick else 100):
        stream_session(ctx, P, rng.choice([2, 5, 20]), peek=True)


# ---------------------------------------------------------------------------
# C19  mapping protocol
# ---------------------------------------------------------------------------
@driver('C19')
def drive_c19(ctx):
    from pamqp import commands, frame
    rec, rng = ctx.rec, ctx.rng
    P = ['C19']
    reps = 1 if ctx.quick else 20
    # class-level observations of ALL classes in ONE interpreter, in an order of this shard's own (what one class leaves
    # behind for another -- e.g. anything keyed by the short class name -- needs both in the same process)
    order = list(framegen.METHODS)
    rng.shuffle(order)
    if ctx.shard % 2:
        order.sort(key=lambda sm: sm[0].split('.')[1] + ('' if ctx.shard % 4 == 1 else sm[0]), reverse=ctx.shard % 8 >= 4)
    for sm in order:
        rec.add('Observe', P, nt=True, stage='class-sweep', **actions.observe(framegen.class_of(sm[0])()))
    for rep in range(reps):
        for i, sm in enumerate(framegen.METHODS):
            if not mine(ctx, i + rep):
                continue
            f = framegen.rand_method(rng, sm)
            rec.add('Observe', P, nt=True, stage='constructed', **actions.observe(f))
            name, cid, mid, args = sm
            if args:
                a, ty, d = rng.choice(args)
                setattr(f, a, framegen.valid_arg(rng, '-', '-', ty))
                rec.add('Observe', P, nt=True, stage='after-setattr', **actions.observe(f))
            for weird in ((), (1, 2), ('a',), [], None, {'k': 1}):
                if args and (rep + i) % 3 == 0:
                    a, ty, d = rng.choice(args)
                    h_ = framegen.rand_method(rng, sm)
                    setattr(h_, a, weird)
                    rec.add('Observe', P, nt=True, stage='after-setattr-exotic', **actions.observe(h_))
            try:
                g = actions.unmarshal3(frame.marshal(framegen.rand_method(rng, sm), 1))[2]
                rec.add('Observe', P, nt=True, stage='decoded', **actions.observe(g))
                # ... and a decoded frame is an object like any other: every argument re-assigned, then observed again
                for a, ty, d in args:
                    setattr(g, a, framegen.valid_arg(rng, '-', '-', ty))
                if args:
                    rec.add('Observe', P, nt=True, stage='decoded-then-setattr', **actions.observe(g))
            except Exception:  # noqa
                pass
        if mine(ctx, rep):
            h = framegen.rand_header(rng)
            rec.add('Observe', P, nt=True, stage='constructed', **actions.observe(h.properties))
            h.properties.priority = rng.randint(0, 9)
            rec.add('Observe', P, nt=True, stage='after-setattr', **actions.observe(h.properties))
            g = actions.unmarshal3(frame.marshal(framegen.rand_header(rng), 1))[2]
            rec.add('Observe', P, nt=True, stage='decoded', **actions.observe(g.properties))
            g.properties.priority = rng.randint(0, 9)
            g.properties.content_type = 'changed/after-decode'
            g.properties.headers = {'new': 1}
            rec.add('Observe', P, nt=True, stage='decoded-then-setattr', **actions.observe(g.properties))
            rec.add('Observe', P, nt=True, stage='default', **actions.observe(commands.Basic.Properties()))
            # values a "helpful" accessor might normalise: sub-second and aware timestamps, struct_time, strings with a
            # signature mark or surrounding blanks, non-minimal containers
            import datetime as _dt19
            import time as _t19
            for ts_ in (_dt19.datetime(2019, 12, 19, 23, 29, 0, 250000), _dt19.datetime(2019, 12, 19, 23, 29, 0, 1, tzinfo=_dt19.timezone.utc),
                        _dt19.datetime(2020, 1, 1, tzinfo=_dt19.timezone(_dt19.timedelta(hours=5, minutes=30))), _t19.gmtime(86400)):
                rec.add('Observe', P, nt=True, stage='exotic-values', **actions.observe(commands.Basic.Properties(
                    timestamp=ts_, content_type='\ufefftype ', headers={'when': ts_, ' k ': [ts_], 'n': {}}, app_id='')))
            rec.add('Observe', P, nt=True, stage='exotic-values', **actions.observe(
                commands.Queue.Declare(queue='', arguments={'\ufeffk': ' v ', 't': _dt19.datetime(2019, 12, 19, 23, 29, 0, 999999)})))


# ---------------------------------------------------------------------------
# C13  validation: exactly the specified constraints, on send only
# ---------------------------------------------------------------------------
def c13_values(rng, cls, arg, ty):
    """values around every constraint of (cls, arg)"""
    key = (cls, arg)
    NC = framegen.NAME_CHARS
    if arg == 'ticket' and ty == 'short':
        return [0, 1, 65535, False, True, None]
    if key in framegen.FIXED:
        fx = framegen.FIXED[key]
        if isinstance(fx, bool):
            return [False, True, None]
        return [fx, '', 'x', '0', '00', ' ', None]
    if key in framegen.EXCH or key in framegen.QUEUE:
        lim = 127 if key in framegen.EXCH else 256
        vals = ['', 'a', 'Z' * (lim - 1), 'q' * lim, 'q' * (lim + 1), NC, 'amq.direct', 'amq.gen-JzTY20BRgKO-HjmUJj0wLg', 'amq.', 'AMQ.x', 'amq.rabbitmq.reply-to', 'a b', 'a/b,c#d@e:f.g_h-i',
                'a\n', '\n', 'a\nb', 'é', 'a!b', 'tab\t', 'a\x00', 'a*', 'x' * 126 + '\n', None,
                ''.join(rng.choice(NC) for _ in range(rng.randint(0, lim))), 'Ω', 'a\\b', 'a"b', "a'b", 'a[b]', 'a^b', 'a`b', 'a~']
        return vals
    if key in framegen.MAXLEN:
        lim = framegen.MAXLEN[key]
        return ['/', '', 'v' * (lim - 1), 'v' * lim, 'v' * (lim + 1), 'é' * lim, 'é' * (lim + 1), 'a\nb', None]
    return []


def warm_all_classes(ctx):
    """every one of the 64 classes constructed and marshalled once, in an order of this shard's own (forward, backward,
    by short name, shuffled): what one class leaves behind for another of the same short name, id or position"""
    from pamqp import frame as _fw
    order = list(framegen.METHODS)
    m_ = ctx.shard % 4
    if m_ == 1:
        order.reverse()
    elif m_ == 2:
        order.sort(key=lambda sm: (sm[0].split('.')[1], sm[0]))
    elif m_ == 3:
        ctx.rng.shuffle(order)
    for sm in order:
        try:
            _fw.marshal(framegen.rand_method(ctx.rng, sm), 1)
        except Exception:  # noqa
            pass


@driver('C13')
def drive_c13(ctx):
    warm_all_classes(ctx)
    import struct
    import wiregen
    rec, rng = ctx.rec, ctx.rng
    P = ['C13']
    k = 0
    constrained = []
    for sm in framegen.METHODS:
        name, cid, mid, args = sm
        for a, ty, d in args:
            vals = c13_values(rng, name, a, ty)
            if vals:
                constrained.append((sm, a, ty, vals))
    for sm, a, ty, vals in constrained:
        name = sm[0]
        for v in vals:
            k += 1
            if not mine(ctx, k):
                continue
            rec.add('Construct', P, nt=True, sigx='%s.%s' % (name, a), **actions.construct(name, {a: v}))
            base = framegen.method_kwargs(rng, sm)
            try:
                rec.add('SetThenMarshal', P, nt=True, sigx='%s.%s' % (name, a), **actions.set_then_marshal(name, base, a, v))
            except actions.BaseRefused as br:
                rec.add('Construct', P, nt=True, sigx='%s.%s' % (name, a), **br.args[0])
                continue
            # the same, with OTHER frames successfully marshalled between the mutation and the marshal (and nothing else)
            try:
                rec.add('SetThenMarshal', P, nt=True, sigx='%s.%s' % (name, a), history='others-marshalled-in-between',
                        **actions.set_then_marshal(name, framegen.method_kwargs(rng, sm), a, v, between=True))
            except actions.BaseRefused as br:
                rec.add('Construct', P, nt=True, sigx='%s.%s' % (name, a), **br.args[0])
            base2 = framegen.method_kwargs(rng, sm)
            base2[a] = v
            rec.add('Construct', P, nt=True, sigx='%s.%s' % (name, a), **actions.construct(name, base2))
    # several constrained arguments of ONE class carrying the SAME value (limits differ: exchange 127, queue 256)
    byclass = {}
    for sm, a, ty, vals in constrained:
        if (sm[0], a) in framegen.EXCH or (sm[0], a) in framegen.QUEUE:
            byclass.setdefault(sm[0], (sm, []))[1].append(a)
    for name, (sm, argnames) in byclass.items():
        if len(argnames) < 2:
            continue
        for v in ['q' * n for n in (126, 127, 128, 200, 255, 256, 257)] + ['a\nb', 'ok.name', '']:
            k += 1
            if not mine(ctx, k):
                continue
            kw = {a: v for a in argnames}
            rec.add('Construct', P, nt=True, sigx=name + '.same-value', **actions.construct(name, kw))
            base = framegen.method_kwargs(rng, sm)
            o_kw = dict(base)
            try:
                ev = actions.set_then_marshal(name, o_kw, argnames[0], v)
            except actions.BaseRefused as br:
                rec.add('Construct', P, nt=True, sigx=name + '.same-value', **br.args[0])
                continue
            rec.add('SetThenMarshal', P, nt=True, sigx=name + '.same-value', **ev)
            # both set after construction
            from abstraction import class_by_name
            kw3 = framegen.method_kwargs(rng, sm)
            try:
                obj = class_by_name(name)(**kw3)
            except Exception:  # noqa
                rec.add('Construct', P, nt=True, sigx=name + '.same-value', **actions.construct(name, kw3))
                continue
            for a in argnames:
                setattr(obj, a, v)
            from pamqp import frame as _fr
            fin = actions.a_frame(obj)
            out = actions._call(_fr.marshal, obj, 1)
            rec.add('SetThenMarshal', P, nt=True, sigx=name + '.same-value', cls=name, arg=argnames[0], ch=1, out=out, **{'in': fin})
    # unconstrained arguments accept anything of their type; all-valid random constructions
    for i, sm in enumerate(framegen.METHODS):
        if mine(ctx, i):
            for _ in range(2 if ctx.quick else 30):
                rec.add('Construct', P, nt=True, sigx=sm[0], **actions.construct(sm[0], framegen.method_kwargs(rng, sm)))
    # Basic.Properties
    if mine(ctx, 0):
        for dm in [None, 0, 1, 2, 3, 255, -1]:
            rec.add('Construct', P, nt=True, sigx='Properties.delivery_mode', **actions.construct('Basic.Properties', {'delivery_mode': dm}))
        for cid_ in ['', 'x', ' ']:   # None: the statement does not fix the outcome, not driven
            rec.add('Construct', P, nt=True, sigx='Properties.cluster_id', **actions.construct('Basic.Properties', {'cluster_id': cid_}))
        rec.add('Construct', P, nt=True, sigx='Properties', **actions.construct('Basic.Properties', {'content_type': 'a\nb', 'priority': 200, 'delivery_mode': 2}))
    # character class: every Unicode code point as a one-character name
    name_args = [(sm, a) for sm, a, ty, vals in constrained if (sm[0], a) in framegen.EXCH or (sm[0], a) in framegen.QUEUE]
    blocks = [(lo, min(lo + 4095, 0x10FFFF)) for lo in range(0, 0x110000, 4096)]
    full = name_args if not ctx.quick else [name_args[0], [x for x in name_args if (x[0][0], x[1]) in framegen.QUEUE][0]]
    k = 0
    for sm, a in name_args:
        for lo, hi in blocks:
            if (sm, a) not in full and lo > 0:
                continue            # quick: ASCII..U+0FFF block for every argument, all planes for two of them
            k += 1
            if mine(ctx, k):
                rec.add('CharBlock', P, nt=True, sigx='%s.%s' % (sm[0], a), **actions.char_block(sm[0], {}, a, lo, hi))
        if not ctx.quick or (sm, a) in full:
            for tpl in [('a', 'b'), ('', 'z'), ('q', '')]:
                k += 1
                if mine(ctx, k):
                    rec.add('CharBlock', P, nt=True, sigx='%s.%s' % (sm[0], a), **actions.char_block(sm[0], {}, a, 0, 4095, tpl))
    # decoding never validates: frames carrying values the send side refuses
    for i, sm in enumerate(framegen.METHODS):
        if mine(ctx, i):
            for _ in range(2 if ctx.quick else 25):
                rec.add('Unmarshal', P, nt=True, sigx=sm[0], wf=True, **actions.unmarshal(wiregen.rand_method_frame(rng, sm, lenient=True)))
    if mine(ctx, 1):
        for _ in range(10 if ctx.quick else 200):
            # delivery_mode outside {1,2}, cluster_id set
            flags = (1 << 12) | (1 << 2) | (rng.getrandbits(14) << 2)
            rec.add('Unmarshal', P, nt=True, sigx='header', wf=True, **actions.unmarshal(
                wiregen.envelope(2, 1, wiregen.header_payload(rng, True, flags=flags))))


# ---------------------------------------------------------------------------
# C08 / C09  arbitrary and corrupted input: termination, bounded work, exception type
# ---------------------------------------------------------------------------
LEN_VALUES = [0, 1, 0xFFFF, 0x10000, 2 ** 31 - 1, 2 ** 31, 2 ** 32 - 1]


def reenvelope(b, payload):
    import struct
    return struct.pack('>BHI', b[0], (b[1] << 8) | b[2], len(payload)) + payload + b'\xce'


def nested(rng, depth, kind):
    """field table / array nested `depth` levels (well-formed)"""
    import struct
    v = b'V'
    for i in range(depth):
        k = kind if kind in 'AF' else rng.choice('AF')
        if k == 'A':
            v = b'A' + struct.pack('>I', len(v)) + v
        else:
            body = b'\x01k' + v
            v = b'F' + struct.pack('>I', len(body)) + body
    return v


def fuzz_inputs(ctx, scale):
    """yields (label, bytes)"""
    import struct
    import wiregen
    rng = ctx.rng
    frames = corpus_frames(ctx, 20 * scale)
    # 1. single-byte corruption
    reps = [0, 1, 0x41, 0x46, 0x53, 0x80, 0xCE, 0xFF]
    for b in frames:
        step = 1 if len(b) < 80 else max(1, len(b) // 60)
        for pos in range(0, len(b), step):
            vals = reps if ctx.quick else reps + [rng.getrandbits(8) for _ in range(8)]
            for x in (vals if len(b) < 200 else vals[:3]):
                if b[pos] != x:
                    yield 'byte', b[:pos] + bytes([x]) + b[pos + 1:]
    # 2. embedded length fields / flag words overwritten (payload kept inside a consistent envelope)
    for b in frames:
        if b[:4] == b'AMQP' or len(b) < 12:
            continue
        payload = b[7:-1]
        for _ in range(6 * scale):
            pos = rng.randrange(0, max(1, len(payload) - 3))
            v = rng.choice(LEN_VALUES + [len(payload) - pos - 4, len(payload) - pos - 3, len(payload) - pos - 5, len(payload)])
            p2 = payload[:pos] + struct.pack('>I', v & 0xFFFFFFFF) + payload[pos + 4:]
            yield 'len32', reenvelope(b, p2)
            p3 = payload[:pos] + struct.pack('>H', rng.choice([1, 3, 0xFFFF, 0x8001, 0x0003, rng.getrandbits(16)])) + payload[pos + 2:]
            yield 'word16', reenvelope(b, p3)
    # 3. truncated payload inside a valid envelope; truncated frames
    for b in frames:
        if b[:4] == b'AMQP':
            continue
        payload = b[7:-1]
        for k in range(0, min(len(payload), 40)):
            yield 'trunc-payload', reenvelope(b, payload[:k])
        for _ in range(3):
            yield 'trunc-frame', b[:rng.randrange(0, len(b))]
    # 4. content headers with every kind of flag-word abuse
    for _ in range(40 * scale):
        fl = rng.choice([1, 3, 0xFFFF, 0x8001, 0xFFFD, rng.getrandbits(16) | 1])
        words = struct.pack('>H', fl) + b''.join(struct.pack('>H', rng.choice([0, 1, 0xFFFF, 2])) for _ in range(rng.randint(0, 3)))
        tail = bytes(rng.getrandbits(8) for _ in range(rng.randint(0, 30)))
        yield 'flagwords', wiregen.envelope(2, 1, struct.pack('>HHQ', 60, 0, 5) + words + tail)
    for n in range(0, 15):
        yield 'short-header', wiregen.envelope(2, 1, bytes(rng.getrandbits(8) for _ in range(n))) if n else wiregen.envelope(2, 1, b'')
    # 5. method payloads of 0..3 bytes, unknown class/method ids, unknown frame types
    for n in range(0, 4):
        yield 'short-method', wiregen.envelope(1, 1, bytes(rng.getrandbits(8) for _ in range(n)))
    for _ in range(20 * scale):
        yield 'unknown-method', wiregen.envelope(1, 1, struct.pack('>HH', rng.choice([0, 10, 11, 60, 61, 65535]), rng.choice([0, 1, 12, 99, 65535])) + b'\x00' * 8)
    for t in range(256):
        if ctx.quick and t % 4 and t > 16:
            continue
        yield 'frame-type', wiregen.envelope(t, 1, b'\x00\x3c\x00\x50\x00\x00\x00\x00\x00\x00\x00\x01\x00')
    # 6. grammar-directed faults inside tables: unknown tags, bad UTF-8 keys/strings, huge timestamps, inflated lengths
    def table_frame(body):
        tbl = struct.pack('>I', len(body)) + body
        payload = struct.pack('>HH', 10, 11) + tbl + wiregen.short_str('PLAIN') + wiregen.long_str(b'') + wiregen.short_str('en_US')
        return wiregen.envelope(1, 0, payload)
    for tag in range(256):
        if bytes([tag]) in wiregen.TAGS:
            continue
        if ctx.quick and tag % 3:
            continue
        yield 'unknown-tag', table_frame(b'\x01k' + bytes([tag]) + b'\x00\x00\x00\x00')
    for bad in [b'\xff', b'\xc3', b'\xe2\x82', b'\xed\xa0\x80', b'\xc0\x80', b'\xf4\x90\x80\x80']:
        yield 'bad-utf8-key', table_frame(bytes([len(bad)]) + bad + b'V')
        yield 'bad-utf8-shortstr', wiregen.envelope(1, 1, struct.pack('>HH', 60, 21) + bytes([len(bad)]) + bad)
        yield 'bad-utf8-prop', wiregen.envelope(2, 1, struct.pack('>HHQH', 60, 0, 0, 0x8000) + bytes([len(bad)]) + bad)
    for v in wiregen.TS_REFUSED:
        yield 'huge-timestamp', table_frame(b'\x01k' + b'T' + struct.pack('>Q', v))
        yield 'huge-timestamp-prop', wiregen.envelope(2, 1, struct.pack('>HHQH', 60, 0, 0, 0x0040) + struct.pack('>Q', v))
    for tag in b'AFSx':
        for ln in LEN_VALUES + [2, 5, 6, 7, 100]:
            yield 'inflated-%s' % chr(tag), table_frame(b'\x01k' + bytes([tag]) + struct.pack('>I', ln) + b'\x01a')
    # lengths with the top bit set (a signed read makes them negative: the offset would move BACKWARDS), placed
    # directly in a table, inside arrays after 0..3 other elements, and in a table inside an array
    neg = [0x80000000, 0x80000001, 0xC0000000] + [0xFFFFFFFF - k for k in range(0, 26)]
    for tag in b'AFSx':
        for ln in (neg if not ctx.quick else neg[::2] + [0xFFFFFFF7, 0xFFFFFFF9]):
            v = bytes([tag]) + struct.pack('>I', ln) + b'\x01a'
            for pre in range(0, 4):
                body = b'V' * pre + v
                yield 'neglen-array-%s' % chr(tag), table_frame(b'\x01k' + b'A' + struct.pack('>I', len(body)) + body)
            inner = b'\x01j' + v
            body = b'F' + struct.pack('>I', len(inner)) + inner
            yield 'neglen-table-in-array-%s' % chr(tag), table_frame(b'\x01k' + b'A' + struct.pack('>I', len(body)) + body)
            yield 'neglen-table-%s' % chr(tag), table_frame(b'\x01k' + v)
    for ln in LEN_VALUES + [1, 2, 3, 50]:
        yield 'inflated-table', wiregen.envelope(1, 0, struct.pack('>HH', 10, 11) + struct.pack('>I', ln) + b'\x01kV')
        yield 'inflated-longstr', wiregen.envelope(1, 0, struct.pack('>HH', 10, 20) + struct.pack('>I', ln) + b'ab')
    for tag in b'tbBsuIilLfdDT':
        for cut in range(0, 9):
            yield 'short-value', table_frame(b'\x01k' + bytes([tag]) + b'\x01' * cut)
    for key_len in [1, 2, 200, 255]:
        yield 'key-overrun', table_frame(bytes([key_len]) + b'k')
    # 6b. containers whose declared length ends INSIDE their last element (overlapping re-decode), nested
    for depth in [4, 8, 12, 16, 24, 32, 48, 64]:
        for variant in range(4 * scale):
            v = b'V'
            for i in range(depth):
                if variant % 4 == 2:          # honest array around a table that declares only its key octet
                    k = 'F' if i % 2 == 0 else 'A'
                else:
                    k = 'A' if variant % 4 == 0 else ('F' if variant % 4 == 1 else rng.choice('AF'))
                body = v if k == 'A' else b'\x00' + v
                if variant % 4 == 2:
                    policy = 'small' if k == 'F' else 'honest'
                else:
                    policy = 'small' if (i % 2 == 1 or (variant % 4 == 3 and rng.random() < 0.5)) else 'honest'
                if policy == 'honest':
                    ln = len(body)
                elif variant % 4 == 2:
                    ln = 1
                elif variant % 4 == 0:
                    ln = 5                 # just the tag + length header of the single nested element
                elif variant % 4 == 1:
                    ln = 6                 # key octet + tag + length header of the nested element
                else:
                    ln = rng.choice([0, 1, 2, 5, 6, max(0, len(body) - 1), len(body) // 2])
                v = k.encode() + struct.pack('>I', ln) + body
            yield 'overlap-%d' % depth, table_frame(b'\x01k' + v)
    # 7. deep nesting (<= 64)
    for d in [1, 8, 32, 60, 64]:
        for kind in 'AFx':
            yield 'nested-%d' % d, table_frame(b'\x01k' + nested(rng, d, kind))
    # 7b. a value the decoder must REFUSE at the bottom of a chain of containers: the refusal travels up through every
    #     level (error translation / re-raising per level must stay linear in time and memory)
    idx = 0
    leaves = [('tag', b'Z\x00'), ('utf8key', None), ('timestamp', b'T' + struct.pack('>Q', 2 ** 63)),
              ('array-overrun', b'A' + struct.pack('>I', 100) + b'V'), ('short', b'I\x00'), ('utf8str', b'S' + struct.pack('>I', 1) + b'\xff')]
    for depth in [1, 2, 4, 8, 12, 16, 20, 24]:
        for lname, leaf in leaves:
            for kinds in ('F', 'A', 'FA'):
                idx += 1
                if not mine(ctx, idx):
                    continue
                if leaf is None:
                    v = b'F' + struct.pack('>I', 3) + b'\x01\xffV'
                else:
                    v = leaf
                for i in range(depth):
                    k = kinds[i % len(kinds)]
                    body = v if k == 'A' else b'\x01k' + v
                    v = k.encode() + struct.pack('>I', len(body)) + body
                yield 'deep-fail-%s-%d' % (lname, depth), table_frame(b'\x01k' + v)
                hdr = b'\x01k' + v
                yield 'deep-fail-hdr-%s-%d' % (lname, depth), wiregen.envelope(
                    2, 1, struct.pack('>HHQH', 60, 0, 0, 0x2000) + struct.pack('>I', len(hdr)) + hdr)
    # 7c. text from the wire is data, never a template: keys / strings made of formatting metacharacters, next to a value
    #     the decoder refuses (so that the key travels into an error path) and next to a good one
    metas = ['{}', '{0}', '{tenant}', 'x-{tenant}-ttl', '{0.foo}', '{0[1]}', '{', '}', '{{}}', '%s', '%(k)s', '%d', '%', '%%',
             '\\', "'", '"', '\n', '\x00', '$x', '${x}', '\\N{DASH}', '{!r}', '{:>99999999}']
    bad_values = [b'Z', b'T' + struct.pack('>Q', 2 ** 64 - 1), b'A' + struct.pack('>I', 100) + b'V',
                  b'F' + struct.pack('>I', 3) + b'\x01\xffV', b'S' + struct.pack('>I', 2) + b'\xc3(', b'D', b'V']
    for m in metas:
        key = wiregen.short_str(m)
        for bv in bad_values:
            idx += 1
            if not mine(ctx, idx):
                continue
            yield 'meta-key', table_frame(key + bv)
            inner = key + bv
            yield 'meta-key-nested', table_frame(b'\x01k' + b'F' + struct.pack('>I', len(inner)) + inner)
            arr = b'F' + struct.pack('>I', len(inner)) + inner
            yield 'meta-key-in-array', table_frame(b'\x01k' + b'A' + struct.pack('>I', len(arr)) + arr)
            yield 'meta-key-headers', wiregen.envelope(2, 1, struct.pack('>HHQH', 60, 0, 0, 0x2000) + struct.pack('>I', len(inner)) + inner)
        yield 'meta-shortstr', wiregen.envelope(1, 1, struct.pack('>HH', 60, 21) + key)                  # Basic.ConsumeOk(consumer_tag)
        yield 'meta-shortstr-cut', wiregen.envelope(1, 1, struct.pack('>HH', 50, 10) + b'\x00\x00' + key)   # Queue.Declare cut after the name
    # 7d. size fields with the top bit set (a signed read makes them negative and Python indexes from the END): the frame size
    #     with 0xCE wherever a negative index can land; never a complete frame, whatever follows
    for k in list(range(1, 80)) + [2 ** 31, 2 ** 31 - 1, 2 ** 31 - 8]:
        size = (2 ** 32 - k) if k < 2 ** 30 else (2 ** 32 - k)
        for t in (1, 2, 3, 8):
            idx += 1
            if not mine(ctx, idx):
                continue
            for tail in (b'', b'\xce', b'hello\xce', b'\xce' * 8, b'\xce' * 61, b'\x00\x3c\x00\x50' + b'\xce' * 40):
                yield 'negsize', struct.pack('>BHI', t, rng.choice([1, 0xCECE, 0x00CE]), size) + tail
    # 7e. declared sizes with bits above 8 / 16 / 24 set and 0xCE where a narrower size field would end the frame
    for bits in (8, 16, 24):
        for r in (0, 1, 2, 5):
            idx += 1
            if not mine(ctx, idx):
                continue
            size = (1 << bits) + r
            for t in (1, 2, 3):
                yield 'size-trunc', struct.pack('>BHI', t, 1, size) + b'X' * r + b'\xce' * 3
    # 7g. the same name twice in one table, every ordered pair of value kinds (a peer may send it; whatever the decoder does with
    #     the second one, it returns or refuses with the library's exception)
    kinds_ = [b'I\x00\x00\x00\x07', b'S\x00\x00\x00\x02hi', b't\x01', b'V', b'F\x00\x00\x00\x04\x01aV', b'F\x00\x00\x00\x00',
              b'A\x00\x00\x00\x02Vt'[:-1] + b'V', b'A\x00\x00\x00\x00', b'D\x02\x00\x00\x01\x3a', b'x\x00\x00\x00\x01\xff']
    for v1 in kinds_:
        for v2 in kinds_:
            idx += 1
            if not mine(ctx, idx):
                continue
            pair = b'\x03dup' + v1 + b'\x03dup' + v2
            yield 'dup-key', table_frame(pair)
            yield 'dup-key-nested', table_frame(b'\x01n' + b'F' + struct.pack('>I', len(pair)) + pair)
            yield 'dup-key-headers', wiregen.envelope(2, 1, struct.pack('>HHQH', 60, 0, 0, 0x2000) + struct.pack('>I', len(pair)) + pair)
    # 7f. volume of DISTINCT names in one frame (beyond any plausible cache size), and names that are bait for a backtracking
    #     pattern: a long run of name characters, optionally broken by separators, ended by one character that is not one
    for nkeys in ((300, 1100) if ctx.quick else (300, 1100, 2600)):
        idx += 1
        if mine(ctx, idx):
            yield 'many-keys-%d' % nkeys, table_frame(b''.join(wiregen.short_str('k%05d-%d' % (i, nkeys)) + b'V' for i in range(nkeys)))
    for run in (24, 31, 40, 62, 120, 250):
        for tail_ in (' ', '!', '\u00e9', '\n', ''):
            idx += 1
            if not mine(ctx, idx):
                continue
            for name in ('x-' + 'authentication_failure_close_'[:29] * 9, 'a' * 300, '-'.join(['ab1'] * 90), 'a_' * 150, 'x.' + 'A9$#_' * 60):
                key = (name[:run] + tail_)[:255]
                yield 'bait-key', table_frame(wiregen.short_str(key) + b'V')
                yield 'bait-shortstr', wiregen.envelope(1, 1, struct.pack('>HH', 60, 21) + wiregen.short_str(key))
                yield 'bait-exchange', wiregen.envelope(1, 1, struct.pack('>HH', 40, 10) + b'\x00\x00' + wiregen.short_str(key) + wiregen.short_str('direct') + b'\x00' + struct.pack('>I', 0))
    # 8. random byte strings, random payloads in valid envelopes
    for _ in range(150 * scale):
        n = rng.choice([0, 1, 6, 7, 8, 9, 12, rng.randint(0, 64), rng.randint(0, 400)])
        yield 'random', bytes(rng.getrandbits(8) for _ in range(n))
    for _ in range(150 * scale):
        t = rng.choice([1, 2, 3, 8])
        p = bytes(rng.getrandbits(8) for _ in range(rng.choice([0, 1, 4, 12, 14, rng.randint(0, 100)])))
        if t == 1 and rng.random() < 0.7:
            sm = rng.choice(framegen.METHODS)
            p = struct.pack('>HH', sm[1], sm[2]) + p
        if t == 2 and rng.random() < 0.7:
            p = struct.pack('>HHQ', 60, 0, rng.getrandbits(64)) + p
        yield 'random-payload', wiregen.envelope(t, rng.randint(0, 65535), p)


def fuzz(ctx, props, scale):
    rec = ctx.rec
    i = 0
    for label, b in fuzz_inputs(ctx, scale):
        i += 1
        ev = actions.unmarshal(b, budget=True, memory=(i % 10 == 0 or label.startswith('deep-fail')))
        rec.add('Unmarshal', props, nt=True, label=label, **ev)


@driver('C08')
def drive_c08(ctx):
    fuzz(ctx, ['C08'], 1 if ctx.quick else 8)
    # value decoders called directly are part of the public API too
    import struct
    rng = ctx.rng
    for depth in [8, 14, 16, 20]:
        v = b'V'
        for i in range(depth):
            inner = b'F' + struct.pack('>I', 1) + b'\x00' + v
            v = b'A' + struct.pack('>I', len(inner)) + inner
        ev = actions.decode_value(v, 'top')
        ev['bound'] = 16 * len(v) + 256
        ctx.rec.add('DecodeValue', ['C08'], nt=True, sigx='direct-overlap', **ev)
    for ln in LEN_VALUES + [2, 9, 100]:
        for fn, pos in (('array', 'array'), ('table', 'table')):
            b = struct.pack('>I', ln) + rng.choice([b'', b'V', b'\x01kV', b'A\x00\x00\x00\x09V'])
            ev = actions.decode_value(b, pos)
            ev['bound'] = 16 * len(b) + 256
            ctx.rec.add('DecodeValue', ['C08'], nt=True, sigx='direct-' + fn, **ev)


@driver('C09')
def drive_c09(ctx):
    fuzz(ctx, ['C09'], 1 if ctx.quick else 8)


# ---------------------------------------------------------------------------
# C06  the byte stream: exactly one frame consumed, whatever follows
# ---------------------------------------------------------------------------
class Receiver:
    """a sans-io client's receive loop on a real bytes buffer"""

    def __init__(self):
        self.buf = b''
        self.got = 0


def stream_session(ctx, props, nframes, peek=False, script=None):
    """Send / Deliver / TryDecode (or PeekRead) events of one session.
    script: optional list of ('send', frame_bytes_index) / ('deliver', k) / ('decode',) from TLC"""
    from pamqp import frame
    rec, rng = ctx.rec, ctx.rng
    rec.add('StreamReset', props)
    rx = Receiver()
    wire = b''
    pending = []
    for _ in range(nframes):
        f, ch = framegen.rand_frame(rng)
        if peek and type(f).__name__ == 'ProtocolHeader' and rng.random() < 0.7:
            continue
        pending.append((f, ch))

    def decode_all():
        while True:
            if peek:
                ev, progressed = actions.peek_read(rx)
                rec.add('PeekRead', props, nt=True, **ev)
            else:
                ev, progressed = actions.try_decode(rx)
                rec.add('TryDecode', props, nt=True, **ev)
            if not progressed:
                break
    while pending or wire:
        if pending and (not wire or rng.random() < 0.4):
            for _ in range(rng.randint(1, 3)):
                if pending:
                    f, ch = pending.pop(0)
                    ev = actions.send(f, ch)
                    if ev['out']['r'] != 'ok':
                        continue
                    rec.add('Send', props, **ev)
                    wire += bytes(ev['out']['b'])
        if wire:
            k = rng.choice([1, 1, 2, 6, 7, 8, len(wire), rng.randint(1, len(wire)), rng.randint(1, min(len(wire), 16))])
            k = min(k, len(wire))
            rx.buf += wire[:k]
            wire = wire[k:]
            rec.add('Deliver', props, k=k, buflen=len(rx.buf))
            if rng.random() < 0.8:
                decode_all()
    decode_all()
    rec.add('Quiesce', props, nt=True, buflen=len(rx.buf), got=rx.got)


TAILS = [b'', b'\x00', b'\x01', b'\x08', b'A', b'\xce', b'AMQP', b'\x08\x00\x00\x00\x00\x00\x00\xce', b'\x01\x00\x01\x00\x00\x00\x04',
         b'\xce\xce', b'\x00\x00', b'AM', b'\xff' * 9]


@driver('C06')
def drive_c06(ctx):
    import json
    from pamqp import frame
    rec, rng = ctx.rec, ctx.rng
    P = ['C06']
    # S2C: every distinct receiver buffer reachable in the exhaustive Stream model, decoded by the real code
    s2c = ctx.gen.get('stream_bufs')
    if s2c:
        bufs = [json.loads(l) for l in open(s2c)]
        for i, item in enumerate(bufs):
            if mine(ctx, i):
                rec.add('Unmarshal', P, nt=True, label='s2c', **actions.unmarshal(bytes(item['buf'])))
    # sessions
    for _ in range(6 if ctx.quick else 120):
        stream_session(ctx, P, rng.choice([2, 5, 20, rng.randint(20, 60)]))
    # tail independence: a complete frame followed by anything
    frames = corpus_frames(ctx, 12 if ctx.quick else 200)
    for b in frames:
        for t in (TAILS if len(b) < 300 else TAILS[:4]) + [bytes(rng.getrandbits(8) for _ in range(rng.randint(1, 20)))]:
            rec.add('Unmarshal', P, nt=True, label='tail', **actions.unmarshal(b + t))
    stale_header_pairs(ctx, P)
    # envelope truth on whatever the decoder accepts
    fuzz_small = list(itertools.islice(fuzz_inputs(ctx, 1), 0, None, 9 if ctx.quick else 2))
    for label, b in fuzz_small:
        rec.add('Unmarshal', P, nt=True, label=label, **actions.unmarshal(b))


# ---------------------------------------------------------------------------
# C10  encoders never emit bytes that decode to a different value
# ---------------------------------------------------------------------------
def wild_ints(rng):
    out = list(gen.boundary_ints(2))
    out += [1 << 70, -(1 << 70), (1 << 64) + 5, -(1 << 64) - 5, 255, 256, -1, 65535, 65536, -32769]
    out += [rng.randint(-(1 << 66), 1 << 66) for _ in range(20)]
    return out


def wild_decimals(rng):
    import decimal
    D = decimal.Decimal
    out = [D('-1.5'), D('0.0000001'), D('1.5E-7'), D('1.5E+3'), D('1E+9'), D('1E+10'), D('2147483647'), D('2147483648'),
           D('-2147483648'), D('-2147483649'), D('21474836.48'), D('0.1') ** 30, D('1E-255'), D('1E-256'), D('-0'), D('0E-7'),
           D('NaN'), D('sNaN'), D('Infinity'), D('-Infinity'), D('1.10'), D('100'), D('1E2'), D('123456789012345678901234567890'),
           D('0.30000000000000004'), D('-0.000000000000000000000000000001'), D('4294967296'), D('4294967295'), D('-1E-300'),
           D('9' * 40), D('1.' + '0' * 30), D('429496729.5')]
    for _ in range(60):
        digits = tuple(rng.randint(0, 9) for _ in range(rng.choice([1, 2, 9, 10, 11, 20, 40])))
        out.append(D((rng.getrandbits(1), digits, rng.choice([-300, -256, -255, -40, -10, -3, -1, 0, 1, 5, 9, 10, 40]))))
    return out


def wild_datetimes(rng):
    import datetime as dtm
    import time
    U = dtm.timezone.utc
    out = [dtm.datetime(1969, 12, 31, 23, 59, 59, tzinfo=U), dtm.datetime(1969, 12, 31, 23, 59, 59), dtm.datetime(1, 1, 1),
           dtm.datetime(1900, 1, 1, tzinfo=U), dtm.datetime(2106, 2, 7, 6, 28, 15, tzinfo=U), dtm.datetime(2106, 2, 7, 6, 28, 16, tzinfo=U),
           dtm.datetime(2106, 2, 7, 6, 28, 16), dtm.datetime(9999, 12, 31, 23, 59, 59, tzinfo=U), dtm.datetime(3000, 1, 1, 12, 0, 0, 500000),
           dtm.datetime(1970, 1, 1, 0, 0, 0, tzinfo=dtm.timezone(dtm.timedelta(hours=1))),
           dtm.datetime(1970, 1, 1, 0, 30, 0, tzinfo=dtm.timezone(dtm.timedelta(hours=-1))),
           time.struct_time((1969, 12, 31, 23, 59, 59, 0, 1, 0)), time.struct_time((2200, 1, 1, 0, 0, 0, 0, 1, 0)),
           time.gmtime(0), time.gmtime(2 ** 32 - 1), time.gmtime(2 ** 32)]
    # the last second before the epoch with a sub-second part (its whole second, 23:59:59, has no encoding), and just after
    for us in (1, 250000, 999999):
        out += [dtm.datetime(1969, 12, 31, 23, 59, 59, us, tzinfo=U), dtm.datetime(1969, 12, 31, 23, 59, 59, us),
                dtm.datetime(1970, 1, 1, 0, 59, 59, us, tzinfo=dtm.timezone(dtm.timedelta(hours=1))),
                dtm.datetime(1969, 12, 31, 23, 59, 58, us, tzinfo=U), dtm.datetime(1970, 1, 1, 0, 0, 0, us, tzinfo=U)]
    for _ in range(40):
        out.append(gen.rand_datetime_in_range(rng))
    for _ in range(20):
        sec = rng.randint(2 ** 32, 253402300799)
        out.append(dtm.datetime(1970, 1, 1, tzinfo=U) + dtm.timedelta(seconds=sec))
    for _ in range(10):
        out.append(dtm.datetime(1970, 1, 1, tzinfo=U) - dtm.timedelta(seconds=rng.randint(1, 10 ** 9)))
    return out


class Weird:
    pass


def wild_misc(rng):
    import decimal
    return [b'bytes', b'', memoryview(b'mv'), (1, 2), {1, 2}, frozenset(), Weird(), 1 + 2j, range(3), {'k': (1,)}, [b'x'],
            {1: 'non-str key'}, {'a' * 129: 1}, {'a' * 128: 1}, {'é' * 128: 1}, {'x' * 255: 1}, {'€' * 86: 1}, {'k' * 300: {'j' * 200: 5}},
            '\ud800', {'\ud800': 1}, ['\udfff'], 'x' * 70000, bytearray(b'\x00' * 300), float('nan'), float('inf'), 1e39, -1e39,
            3.4028235677973366e+38, True, None, {'a': None, 'b': [None, {}]}, [[[[[]]]]], decimal.Decimal('1.5')]


WILD_ARGS = [2, -1, 255, 256, 0, 1, None, 'x', '', [], [0], {}, {'k': 1}, 1.0, 0.0, 2.5, b'b', True, False, 3000000000, -(1 << 63), 1 << 63,
             1 << 64, 65535, 65536, 'é' * 128, 'x' * 255, 'x' * 256, (1,), bytearray(b'q')]


@driver('C10')
def drive_c10(ctx):
    from pamqp import body, commands, header
    rec, rng = ctx.rec, ctx.rng
    P = ['C10']
    if ctx.shard == 3:
        ambient_decimal_context(ctx, P)
    if ctx.shard == 4:
        under_legacy(ctx, P)
    replay_small_values(ctx, P)
    vals = wild_ints(rng) + wild_decimals(rng) + wild_datetimes(rng) + wild_misc(rng) + \
        [gen.rand_float(rng, allow_overflow=True) for _ in range(60)]
    k = 0
    for v in vals:
        k += 1
        if not mine(ctx, k):
            continue
        rec.add('EncodeValue', P, nt=True, **actions.encode_value(v, 'top'))
        rec.add('EncodeValue', P, nt=True, **actions.encode_value([v, {'k': v}], 'top'))
        rec.add('EncodeValue', P, nt=True, **actions.encode_value({'k': v}, 'table'))
        for ty in ('octet', 'short', 'long', 'longlong', 'shortstr', 'longstr', 'table', 'timestamp'):
            rec.add('EncodeArg', P, nt=True, **actions.encode_arg(ty, v))
    for v in WILD_ARGS:
        k += 1
        if mine(ctx, k):
            for ty in ('octet', 'short', 'long', 'longlong', 'shortstr', 'longstr', 'table', 'timestamp'):
                rec.add('EncodeArg', P, nt=True, **actions.encode_arg(ty, v))
    for _ in range(100 if ctx.quick else 3000):
        rec.add('EncodeValue', P, nt=True, **actions.encode_value(gen.rand_value(rng, 3, 3), 'top'))
    # method frames: one argument at a time replaced by a wild value (constructor validation bypassed by setattr
    # only where the constructor refuses; validation errors are 'raises' and fine)
    reps = 1 if ctx.quick else 6
    for rep in range(reps):
        for i, sm in enumerate(framegen.METHODS):
            name, cid, mid, args = sm
            for a, ty, d in args:
                k += 1
                if not mine(ctx, k):
                    continue
                pool = WILD_ARGS if ty != 'bit' else [2, -1, 255, 256, 0, 1, None, 'x', '', [], [0], 1.0, 0.0, 128, 3, 4, 64, -2]
                for v in (pool if not ctx.quick else rng.sample(pool, min(8, len(pool)))):
                    f = framegen.rand_method(rng, sm)
                    setattr(f, a, v)
                    rec.add('RoundTrip', P, nt=True, sigx='%s.%s' % (name, ty), **actions.roundtrip(f, framegen.rand_channel(rng)))
    # content headers / properties / bodies / channels with wild values
    settable = [p for p in framegen.PROPS if p[0] != 'cluster_id']
    for _ in range(60 if ctx.quick else 1500):
        h = framegen.rand_header(rng)
        n, ty = rng.choice(settable)
        setattr(h.properties, n, rng.choice(WILD_ARGS + wild_datetimes(rng)[:20]))
        if rng.random() < 0.3:
            h.body_size = rng.choice([-1, 1 << 64, (1 << 64) - 1, 1.5, None, '5', True])
        rec.add('RoundTrip', P, nt=True, sigx='header.' + n, **actions.roundtrip(h, rng.choice([0, 1, 65535, 65536, -1, True])))
    # the empty body is not driven: C18 restricts the round trip to non-empty bodies (the decoder refuses size 0)
    for v in [b'x', bytearray(b'ab'), 'str', None, 5, [1], memoryview(b'zz')]:
        rec.add('RoundTrip', P, nt=True, sigx='body', **actions.roundtrip(body.ContentBody(v), 1))
    for t in [(256, 0, 0), (0, -1, 0), (0, 9, 1), (1.0, 2, 3), ('0', 9, 1), (True, False, 255), (None, 0, 0)]:
        rec.add('RoundTrip', P, nt=True, sigx='protocol-header', **actions.roundtrip(header.ProtocolHeader(*t), 0))


# ---------------------------------------------------------------------------
# C12  deterministic, order-independent, non-mutating
# ---------------------------------------------------------------------------
def shuffled(rng, v):
    """same content, another insertion order at every nesting level"""
    if isinstance(v, dict):
        items = [(k, shuffled(rng, x)) for k, x in v.items()]
        rng.shuffle(items)
        return dict(items)
    if isinstance(v, list):
        return [shuffled(rng, x) for x in v]
    return v


ORDER_KEYS = ['a', 'ab', 'b', '', 'é', 'B', 'a' * 128, 'a' * 127 + 'b', 'aa', 'z', '\U0001F600', '~', 'A',
              'k' * 129, 'k' * 128 + 'x', 'k' * 200, 'é' * 127 + 'zz']        # longer than 128: cut on the wire, never in the caller's dict


@driver('C12')
def drive_c12(ctx):
    import json
    rec, rng = ctx.rec, ctx.rng
    P = ['C12']
    replay_small_values(ctx, P)
    # S2C: every insertion order reachable in MC_Order, built as a real dict in exactly that order
    s2c = ctx.gen.get('orders')
    if s2c:
        for i, line in enumerate(open(s2c)):
            if mine(ctx, i):
                from abstraction import concrete
                tbl = concrete(json.loads(line)['tbl'])
                rec.add('EncodeValue', P, nt=True, **actions.encode_value(tbl, 'table'))
                rec.add('EncodeValue', P, nt=True, **actions.encode_value([tbl, {'n': tbl}], 'top'))
    # permutations of up to 6 keys, nested tables inside arrays permuted independently
    for _ in range(60 if ctx.quick else 1500):
        keys = rng.sample(ORDER_KEYS, rng.randint(2, 6))
        base = {}
        for k in keys:
            c = rng.random()
            base[k] = rng.randint(-300, 70000) if c < 0.5 else ({kk: rng.randint(0, 9) for kk in rng.sample(ORDER_KEYS, 3)} if c < 0.8
                                                                else [{kk: 1 for kk in rng.sample(ORDER_KEYS, 3)}, 5])
        others = [shuffled(rng, base) for _ in range(3)]     # built BEFORE anything is encoded
        a = actions.encode_value(base, 'table')
        rec.add('EncodeValue', P, nt=True, **a)
        for other in others:
            b = actions.encode_value(other, 'table')
            rec.add('EncodeValue', P, nt=True, **b)
            rec.add('SameBytes', P, nt=True, in1=a['in'], in2=b['in'], out1=a['out'], out2=b['out'])
    # every kind of value, twice, with before/after snapshots (lists, byte arrays, nested)
    for _ in range(150 if ctx.quick else 4000):
        rec.add('EncodeValue', P, nt=True, **actions.encode_value(gen.rand_value(rng, 4, 4), 'top'))
    for _ in range(60 if ctx.quick else 1500):
        f, ch = framegen.rand_frame(rng)
        rec.add('RoundTrip', P, nt=True, **actions.roundtrip(f, ch))
    for i, sm in enumerate(framegen.METHODS):
        if mine(ctx, i):
            rec.add('RoundTrip', P, nt=True, **actions.roundtrip(framegen.rand_method(rng, sm), 1))
    if ctx.shard in (0, 5):
        exotic_but_accepted(ctx, P)
    if ctx.shard == 6:
        under_legacy(ctx, P)
        colliding_long_keys(ctx, P)
    if ctx.shard == 7:
        decode_mutate_encode(ctx, P)
        marshal_failure_then(ctx, P)
    if ctx.shard == 8:
        reentrant_callbacks(ctx, P)
    if ctx.shard == 9:
        ambient_decimal_context(ctx, P)


# ---------------------------------------------------------------------------
# C15  time zone independence
# ---------------------------------------------------------------------------
ZONES_QUICK = ['UTC', 'Pacific/Kiritimati', 'Asia/Kathmandu', 'America/New_York', 'Europe/London', 'Australia/Lord_Howe']
ZONES_ALL = ZONES_QUICK + ['Etc/GMT+12', 'Asia/Kolkata', 'America/St_Johns', 'Europe/Berlin', 'Australia/Sydney',
                           'Pacific/Auckland', 'America/Sao_Paulo', 'XYZ-3:45ABC-4:45,M3.2.0/2,M11.1.0/2',
                           'WET8WEST7,J60/0,J300/0', 'Africa/Casablanca']


def _no_offset_tz():
    import datetime as dtm

    class NoOffset(dtm.tzinfo):
        # a tzinfo that knows no offset: such a datetime is NAIVE by Python's definition
        def utcoffset(self, dt):
            return None

        def dst(self, dt):
            return None

        def tzname(self, dt):
            return 'none'
    return NoOffset()


def tz_instants(rng, n):
    import datetime as dtm
    import time
    U = dtm.timezone.utc
    out = []
    secs = [0, 1, 2 ** 31 - 1, 2 ** 31, 2 ** 31 + 1, 2 ** 32 - 1, 86399, 86400, 13 * 3600, 951782400]
    # DST transition hours (+-1 s) of several zones and years: around the 2nd Sunday of March / last Sunday of March /
    # first Sunday of November / last Sunday of October / first Sunday of April and October, 00:00..03:30 local
    for year in (1987, 2007, 2021, 2024, 2038, 2100):
        for month, day in ((3, 8), (3, 14), (3, 25), (3, 31), (4, 1), (4, 7), (10, 1), (10, 6), (10, 25), (10, 31), (11, 1), (11, 7)):
            base = int(dtm.datetime(year, month, day, tzinfo=U).timestamp())
            for h in (0, 1, 2, 3, 7, 10, 13, 16):
                for d in (-1, 0, 1, 1800):
                    s = base + h * 3600 + d
                    if 0 <= s < 2 ** 32:
                        secs.append(s)
    try:
        import zoneinfo
        for zname, (mo, da, ho, mi) in (('America/New_York', (11, 7, 1, 30)), ('Europe/London', (10, 31, 1, 15)),
                                        ('Australia/Lord_Howe', (4, 4, 1, 45)), ('Australia/Sydney', (4, 4, 2, 30))):
            z = zoneinfo.ZoneInfo(zname)
            for us in (0, 250000):
                for fold in (0, 1, 0):          # the repeated hour of 2021: same wall time, same tzinfo object, both folds
                    out.append(dtm.datetime(2021, mo, da, ho, mi, 0, us, tzinfo=z, fold=fold))
    except Exception:  # noqa  (no zone database: the fixed-offset cases remain)
        pass
    secs = rng.sample(secs, min(len(secs), n)) + [rng.randint(0, 2 ** 32 - 1) for _ in range(n // 2)]
    for s in secs:
        t = dtm.datetime(1970, 1, 1, tzinfo=U) + dtm.timedelta(seconds=s)
        out.append(t.replace(tzinfo=None))                              # naive: read as UTC
        out.append(t.replace(tzinfo=_no_offset_tz()))                   # naive too: tzinfo without an offset
        out.append(t.replace(tzinfo=None, fold=1))
        out.append(t)                                                   # aware UTC
        out.append(t.astimezone(dtm.timezone(dtm.timedelta(seconds=rng.choice([3600, -18000, 20700, 45900, -34200])))))
        out.append(time.struct_time((t.year, t.month, t.day, t.hour, t.minute, t.second, 0, 1, rng.choice([-1, 0, 1]))))
        out.append(time.gmtime(s))
    # struct_time values that carry tm_zone / tm_gmtoff (from localtime(), strptime('%z'), or built with 11 fields): the nine
    # calendar fields are read as UTC whatever offset is attached
    for s in secs[:6]:
        t = dtm.datetime(1970, 1, 1, tzinfo=U) + dtm.timedelta(seconds=s)
        nine = (t.year, t.month, t.day, t.hour, t.minute, t.second, 0, 1, 0)
        out.append(time.struct_time(nine + ('CEST', 7200)))
        out.append(time.struct_time(nine + ('EST', -18000)))
        out.append(time.localtime(s))
        try:
            out.append(time.strptime(t.strftime('%Y-%m-%d %H:%M:%S') + ' +0530', '%Y-%m-%d %H:%M:%S %z'))
        except ValueError:
            pass
    return out


@driver('C15')
def drive_c15(ctx):
    import struct
    rec, rng = ctx.rec, ctx.rng
    P = ['C15']
    zones = ZONES_QUICK if ctx.quick else ZONES_ALL
    inst = tz_instants(rng, 12 if ctx.quick else 60)
    wires = [0, 1, 2 ** 31 - 1, 2 ** 31, 2 ** 32 - 1, 2 ** 32, 1700000000123, 253402300799999] + [rng.randint(0, 2 ** 32 - 1) for _ in range(20)]
    for zi, z in enumerate(zones):
        if not mine(ctx, zi):
            continue
        rec.add('SetTZ', P, nt=True, **actions.set_tz(z))
        for v in inst:
            rec.add('EncodeValue', P, nt=True, **actions.encode_value(v, 'top'))
            rec.add('EncodeArg', P, nt=True, **actions.encode_arg('timestamp', v))
        for w in wires:
            rec.add('DecodeValue', P, nt=True, **actions.decode_value(b'T' + struct.pack('>Q', w), 'top'))
        # every path a timestamp can take through a FRAME: the timestamp property, the headers table, method arguments
        from pamqp import commands as _c15, header as _h15
        for v in inst[:16]:
            for fr in (_h15.ContentHeader(0, 1, _c15.Basic.Properties(timestamp=v)),
                       _h15.ContentHeader(0, 1, _c15.Basic.Properties(timestamp=v, headers={'at': v, 'l': [v]}, priority=1)),
                       _c15.Queue.Declare(queue='q', arguments={'x-since': v}),
                       _c15.Connection.StartOk(client_properties={'started': v, 'n': {'t': v}})):
                rec.add('RoundTrip', P, nt=True, **actions.roundtrip(fr, 1))
        # switch zones in the middle of a run: the previous zone must leave no trace
        z2 = rng.choice(zones)
        rec.add('SetTZ', P, nt=True, **actions.set_tz(z2))
        for v in inst[:30]:
            rec.add('EncodeValue', P, nt=True, **actions.encode_value({'t': v, 'l': [v]}, 'table'))
        # a fresh interpreter started with TZ=<zone>
        for ev in actions.tz_child(z, ctx.seed + zi, 40 if ctx.quick else 200):
            rec.add(ev.pop('a'), P, nt=True, **ev)
    rec.add('SetTZ', P, **actions.set_tz('UTC'))


# ---------------------------------------------------------------------------
# C16  independence of history and of concurrent callers
# ---------------------------------------------------------------------------
@driver('C16')
def drive_c16(ctx):
    import heapdrv
    import threads
    rng = ctx.rng
    class_failure_pairs(ctx, ['C16'])
    header_failure_pairs(ctx, ['C16'], 6 if ctx.quick else 80)
    for _ in range(12 if ctx.quick else 250):
        heapdrv.run_session(ctx.rec, rng, ['C16'], rng.choice([8, 14, 25]))
    replay_ladder_histories(ctx, ['C16'])
    # S2C: every 4-call history of the object-world model, executed on real objects
    import json as _json
    if ctx.gen.get('api_hist'):
        for i, line in enumerate(open(ctx.gen['api_hist'])):
            if mine(ctx, i):
                heapdrv.run_script(ctx.rec, rng, ['C16'], _json.loads(line)['hist'])
    # failed decodes INSIDE field tables (valid envelope, broken content) interleaved with valid table-carrying
    # frames, all in this one interpreter: whatever a failure leaves behind must not reach a later call
    import wiregen
    faults = [b for label, b in fuzz_inputs(ctx, 1)
              if label.split('-')[0] in ('unknown', 'inflated', 'short', 'bad', 'key', 'huge', 'nested', 'overlap')]
    rng.shuffle(faults)
    for i, b in enumerate(faults[:400 if ctx.quick else 4000]):
        first = actions.unmarshal(b)
        ctx.rec.add('Unmarshal', ['C16'], nt=True, label='fault-history', **first)
        if i % 2 == 0:          # the very same bytes again: same result, whatever the first attempt left behind
            again = actions.unmarshal(b)
            ctx.rec.add('SameResult', ['C16'], nt=True, b=first['b'], out1=first['out'], out2=again['out'])
        if i % 4 == 3:
            good = wiregen.rand_method_frame(rng, rng.choice(heapdrv.WITH_TABLE), lenient=False)
            ctx.rec.add('Unmarshal', ['C16'], nt=True, label='after-faults', wf=True, **actions.unmarshal(good))
    history_insensitivity(ctx, ['C16'])
    cross_thread_toggles(ctx, ['C16'])
    if ctx.shard in (2, 3):
        exotic_but_accepted(ctx, ['C16'])
    if ctx.shard == 4:
        under_legacy(ctx, ['C16'])
    if ctx.shard == 5:
        decode_mutate_encode(ctx, ['C16'])
        marshal_failure_then(ctx, ['C16'])
    if ctx.shard == 6:
        reentrant_callbacks(ctx, ['C16'])
    if ctx.shard == 1:
        ambient_decimal_context(ctx, ['C16'])
    scheds = ctx.gen.get('schedules')
    threads.run(ctx, ['C16'], scheds, 6 if ctx.quick else 120)


# ---------------------------------------------------------------------------
# content assembly on several channels (Content.tla), judged under C18
# ---------------------------------------------------------------------------
def content_session(ctx, props):
    from pamqp import body, commands, frame, header, heartbeat
    rec, rng = ctx.rec, ctx.rng
    rec.add('CReset', props)
    frame_max = rng.choice([9, 16, 64, 4096])
    chans = rng.sample(range(1, 8), rng.randint(1, 3))
    queues = {}
    for ch in chans:
        q = []
        for _ in range(rng.randint(1, 3)):
            n = rng.choice([0, 1, frame_max - 8, frame_max - 7, rng.randint(0, 300)])
            data = bytes(rng.getrandbits(8) for _ in range(n)) if rng.random() < 0.7 else (b'\xce\x08AMQP' * n)[:n]
            sm = rng.choice([m for m in framegen.METHODS if m[0] in ('Basic.Publish', 'Basic.Return', 'Basic.Deliver', 'Basic.GetOk')])
            m = framegen.rand_method(rng, sm)
            rec.add('CPublish', props, ch=ch, method=sm[0], body=list(data))
            while True:             # (random tables may hold integers the encoder refuses: draw again)
                try:
                    fm = frame.marshal(m, ch)
                    fh = frame.marshal(header.ContentHeader(0, len(data), framegen.rand_header(rng).properties), ch)
                    break
                except Exception:  # noqa
                    m = framegen.rand_method(rng, sm)
            q.append(fm)
            q.append(fh)
            step = max(1, frame_max - 8)
            for i in range(0, len(data), step):
                q.append(frame.marshal(body.ContentBody(data[i:i + step]), ch))
        queues[ch] = q
    wire = b''
    while any(queues.values()):
        if rng.random() < 0.15:
            wire += frame.marshal(heartbeat.Heartbeat(), 0)
        ch = rng.choice([c for c in chans if queues[c]])
        wire += queues[ch].pop(0)
    # receiver: chunked delivery, greedy decode, one assembler per channel reading only public attributes
    buf = b''
    asm = {}
    pos = 0
    while pos < len(wire) or buf:
        k = rng.randint(1, 40)
        buf += wire[pos:pos + k]
        pos += k
        while True:
            out, f = actions.do_unmarshal(buf)
            if f is None:
                break
            n, ch = out['n'], out['ch']
            buf = buf[n:]
            done, msg = False, {'method': '', 'size': 0, 'body': []}
            if isinstance(f, header.ContentHeader):
                st_ = asm.get(ch)
                if st_ is not None:
                    st_['size'] = f.body_size
                    st_['left'] = f.body_size
                    done = f.body_size == 0
            elif isinstance(f, body.ContentBody):
                st_ = asm.get(ch)
                if st_ is not None:
                    st_['acc'] += f.value
                    st_['left'] -= len(f)
                    done = st_['left'] == 0
            elif isinstance(f, heartbeat.Heartbeat):
                pass
            else:
                asm[ch] = {'method': f.name, 'size': 0, 'left': 0, 'acc': b''}
            if done:
                st_ = asm.pop(ch)
                msg = {'method': st_['method'], 'size': st_['size'], 'body': list(st_['acc'])}
            rec.add('CFrame', props, nt=True, ch=ch, f=actions.a_frame(f), done=bool(done), msg=msg)
        if pos >= len(wire) and not buf:
            break
        if pos >= len(wire):
            break
    rec.add('CQuiesce', props, nt=True)


def history_insensitivity(ctx, props):
    """The same probe calls before and after a storm of everything else the API offers (failures of every kind
    included), in ONE interpreter: each probe is judged by TLC against the pure operator both times, so whatever a
    call leaves behind -- a cache, a pinned switch, a counter, a rewritten class attribute -- shows on the second pass."""
    import json
    import wiregen
    from abstraction import concrete, concrete_frame
    from pamqp import commands, exceptions, frame
    rec, rng = ctx.rec, ctx.rng
    values, frames = [], []
    if ctx.gen.get('small_values'):
        lines = open(ctx.gen['small_values']).read().splitlines()
        for i in range(ctx.shard, len(lines), max(1, len(lines) // 40) * ctx.nshards + 1):
            values.append(concrete(json.loads(lines[i])['v']))
    if ctx.gen.get('small_frames'):
        lines = open(ctx.gen['small_frames']).read().splitlines()
        for i in range(ctx.shard, len(lines), max(1, len(lines) // 30) * ctx.nshards + 1):
            frames.append(concrete_frame(json.loads(lines[i])['f']))
    values += [40000, 3000000000, [40000, {'k': 65535}], {'t': gen.rand_datetime_in_range(rng)}, gen.rand_decimal_fitting(rng)]
    wires = [wiregen.rand_wire_frame(rng, lenient=True) for _ in range(25)]

    def probes(tag):
        for v in values:
            rec.add('EncodeValue', props, nt=True, phase=tag, **actions.encode_value(v, 'top'))
        for f in frames:
            rec.add('RoundTrip', props, nt=True, phase=tag, **actions.roundtrip(f, 5))
        for b in wires:
            rec.add('Unmarshal', props, nt=True, phase=tag, **actions.unmarshal(b))

    probes('fresh')
    generic_storm(ctx, frames)
    rec.add('Toggle', props, **actions.toggle('false'))
    probes('after-storm')


def generic_storm(ctx, frames=()):
    """everything else the API offers, failures of every kind included; nothing of it is recorded -- what matters is
    what it leaves behind for the calls that follow"""
    import wiregen
    from pamqp import commands, exceptions, frame
    rng = ctx.rng
    values = [40000, 3000000000, [40000, {'k': 65535}], {'t': gen.rand_datetime_in_range(rng)}, gen.rand_decimal_fitting(rng)]
    for v in wild_misc(rng) + wild_decimals(rng)[:20] + wild_datetimes(rng)[:12] + [1 << 64, -(1 << 70), 1e39]:
        actions.encode_value(v, 'top')
        actions.encode_value({'k': v, '\u20ac' * 100: 1}, 'table')
        for ty in ('octet', 'short', 'longlong', 'shortstr', 'table', 'timestamp'):
            actions.encode_arg(ty, v)
    for label, b in itertools.islice(fuzz_inputs(ctx, 1), 0, None, 23):
        actions.unmarshal(b)
        actions.unmarshal(b)
    for sm in framegen.METHODS[::3]:
        for a, ty, d in sm[3]:
            vals = c13_values(rng, sm[0], a, ty)
            for v in vals[:6]:
                actions.construct(sm[0], {a: v})
                try:
                    actions.set_then_marshal(sm[0], framegen.method_kwargs(rng, sm), a, v, between=True)
                except Exception:  # noqa
                    pass
    for code in (0, 200, 310, 312, 404, 541, 600):
        try:
            exceptions.CLASS_MAPPING[code]
        except KeyError:
            pass
        exceptions.CLASS_MAPPING.get(code)
    for f in list(frames)[:20]:
        actions.observe(f) if hasattr(f, 'attributes') else None
    for mode in ('true', 'noarg', 'false', 'true', 'false'):
        actions.toggle(mode)
        for v in values[-5:]:
            actions.encode_value(v, 'top')
    import struct as _st
    for depth in (65, 70, 80):       # nesting beyond the interpreter-friendly limit (refused or not, it must leave nothing behind)
        for kind in 'AF':
            v = nested(rng, depth, kind)
            tbl = b'\x01k' + v
            actions.unmarshal(wiregen.envelope(1, 0, _st.pack('>HH', 10, 11) + _st.pack('>I', len(tbl)) + tbl + wiregen.short_str('PLAIN')
                                               + wiregen.long_str(b'') + wiregen.short_str('en_US')))
            actions.decode_value(v, 'top')
    for _ in range(30):            # decoded objects are the caller's: every container they hold is changed in place
        try:
            f_, c_ = framegen.rand_frame(rng)
            if rng.random() < 0.5 and hasattr(f_, 'properties'):
                f_.properties.headers = rng.choice([{}, {'k': {}}, {'k': []}])
            n_, ch_, fo = actions.unmarshal3(frame.marshal(f_, c_))
            for obj in ([fo.properties] if hasattr(fo, 'properties') else []) + [fo]:
                for a in getattr(type(obj), '__slots__', []):
                    x = getattr(obj, a, None)
                    if isinstance(x, dict):
                        x['x-verif-mutated'] = 1
                        for y in x.values():
                            if isinstance(y, dict):
                                y['x-verif-mutated'] = 2
                            elif isinstance(y, list):
                                y.append('x-verif-mutated')
        except Exception:  # noqa
            pass
    for _ in range(40):            # frames a peer may send, decoded and re-encoded
        try:
            n_, ch_, fo = actions.unmarshal3(wiregen.rand_wire_frame(rng, lenient=True))
            frame.marshal(fo, ch_)
        except Exception:  # noqa
            pass
    # volume: more DISTINCT names, strings, channels and values than any cache or intern table is likely to hold
    for i in range(1500):
        nm = 'vol-%d-%s' % (i, 'x' * (i % 7))
        try:
            b_ = frame.marshal(commands.Queue.Declare(queue='q%d' % i, arguments={nm: i, 'c': nm}), i % 65536)
            actions.unmarshal3(b_)
            frame.marshal(commands.Basic.Consume(queue='q', consumer_tag=nm), (i * 37) % 65536)
        except Exception:  # noqa
            pass
    # every one of the 64 classes used once in THIS interpreter (class-level state shared between classes -- anything keyed
    # by a short name, an id, a position -- needs both classes in one process)
    for sm in framegen.METHODS:
        try:
            f_ = framegen.rand_method(rng, sm)
            f_.attributes()
            dict(f_)
            actions.unmarshal3(frame.marshal(f_, 1))
        except Exception:  # noqa
            pass
    # amplification: whatever ONE refused call leaves behind (a counter, a stack entry, a buffer), hundreds leave it
    # hundreds of times -- every kind of refusal, placed under several levels of containers, repeated
    from pamqp import encode as _enc, decode as _dec
    refused = [object(), 1 << 64, 1e39, 'k' * 70000 and {'\u20ac' * 100: 1}, __import__('decimal').Decimal('NaN')]
    for bad in refused:
        shapes = [{'a': [{'b': [{'c': bad}]}]}, [[[[bad]]]], {'a': {'b': {'c': {'d': bad}}}}, [{'k': [bad, 1]}, 2]]
        for shape in shapes:
            for _ in range(60):
                for fn in (_enc.field_table, _enc.field_array, _enc.encode_table_value):
                    try:
                        fn(shape if not (fn is _enc.field_table and not isinstance(shape, dict)) else {'w': shape})
                    except Exception:  # noqa
                        pass
    bad_wire = [b'Z', b'T' + _st.pack('>Q', 2 ** 64 - 1), b'A' + _st.pack('>I', 100) + b'V', b'S' + _st.pack('>I', 2) + b'\xc3(', b'I\x00']
    for leaf in bad_wire:
        for kinds in ('FFFF', 'AAAA', 'FAFA'):
            v = leaf
            for k in kinds:
                body = v if k == 'A' else b'\x01k' + v
                v = k.encode() + _st.pack('>I', len(body)) + body
            tbl = b'\x01k' + v
            fr = wiregen.envelope(1, 0, _st.pack('>HH', 10, 11) + _st.pack('>I', len(tbl)) + tbl + wiregen.short_str('PLAIN')
                                  + wiregen.long_str(b'') + wiregen.short_str('en_US'))
            hd = wiregen.envelope(2, 1, _st.pack('>HHQH', 60, 0, 0, 0x2000) + _st.pack('>I', len(tbl)) + tbl)
            for _ in range(60):
                for b_ in (fr, hd):
                    try:
                        actions.unmarshal3(b_)
                    except Exception:  # noqa
                        pass
                __import__('observers').with_budget(_dec.embedded_value, v)
    for _ in range(200):
        for bad_kw in (dict(queue='a\n'), dict(queue='q' * 300), dict(ticket=5)):
            try:
                commands.Queue.Declare(**bad_kw)
            except Exception:  # noqa
                pass
        try:
            frame.marshal(commands.Basic.Qos(prefetch_count=-1), 1)
        except Exception:  # noqa
            pass
        try:
            frame.marshal(commands.Basic.Ack(delivery_tag='x'), 1)
        except Exception:  # noqa
            pass
    actions.toggle('false')


# ---------------------------------------------------------------------------
# systematic history families (used by several properties)
# ---------------------------------------------------------------------------
REFUSED_ARG = {'bit': [None, 'x'], 'octet': [None, 'x', 256], 'short': [None, 'x', 65536], 'long': [None, -1], 'longlong': [None, 1 << 64],
               'shortstr': [None, 5, 'x' * 256, b'raw'], 'longstr': [None, 5, b'\x00guest\x00guest', b'', bytearray(b'tok')], 'table': [5, {'k': 1 << 64}, {'\u20ac' * 100: 1}, {'k': 1e39}], 'timestamp': [5]}


def class_failure_pairs(ctx, props, decode_side=True, encode_side=True):
    """For every method class, as the FIRST use of that class in this interpreter where possible: a refused call
    that fails at each argument position, immediately followed by a valid call of the same class with non-default
    values in every argument.  Whatever the refused call leaves behind (a half-filled cache, a bit accumulator, a
    spare object) shows in the valid call, which TLC judges against the pure operator."""
    import wiregen
    from pamqp import frame
    rec, rng = ctx.rec, ctx.rng
    for i, sm in enumerate(framegen.METHODS):
        if not mine(ctx, i):
            continue
        name, cid, mid, args = sm
        if decode_side:
            good = wiregen.envelope(1, 3, wiregen.method_payload(rng, sm, lenient=False))
            payload = wiregen.method_payload(rng, sm, lenient=False)
            cuts = sorted(set([4, 5, 6, len(payload) // 2, len(payload) - 1, len(payload) - 2]) & set(range(4, len(payload))))
            for c in cuts:
                rec.add('Unmarshal', props, nt=True, label='class-fail', **actions.unmarshal(wiregen.envelope(1, 3, payload[:c])))
                rec.add('Unmarshal', props, nt=True, label='class-after-fail', wf=True, **actions.unmarshal(good))
            if any(ty == 'table' for a, ty, d in args):
                # a refused value inside the table argument (unknown tag, timestamp beyond 9999), later arguments present
                import struct
                for bad in (b'\x01k\x07\x00', b'\x01kT' + struct.pack('>Q', 2 ** 64 - 1), b'\x02\xff\xfeV'):
                    out = [struct.pack('>HH', cid, mid)]
                    bits = []
                    for a, ty, d in args:
                        if ty == 'bit':
                            bits.append(1)
                            continue
                        if bits:
                            out.append(bytes([sum(b << j for j, b in enumerate(bits))]))
                            bits = []
                        out.append(struct.pack('>I', len(bad)) + bad if ty == 'table' else wiregen.rand_arg_wire(rng, name, a, ty, False))
                    if bits:
                        out.append(bytes([sum(b << j for j, b in enumerate(bits))]))
                    rec.add('Unmarshal', props, nt=True, label='class-fail-table', **actions.unmarshal(wiregen.envelope(1, 3, b''.join(out))))
                    rec.add('Unmarshal', props, nt=True, label='class-after-fail', wf=True, **actions.unmarshal(good))
        if encode_side:
            for k, (a, ty, d) in enumerate(args):
                for badv in REFUSED_ARG.get(ty, [None])[:2 if ctx.quick else 4]:
                    f = framegen.rand_method(rng, sm)
                    setattr(f, a, badv)
                    rec.add('RoundTrip', props, nt=True, label='class-refused', **actions.roundtrip(f, 2))
                    rec.add('RoundTrip', props, nt=True, label='class-after-refused', **actions.roundtrip(framegen.rand_method(rng, sm), 2))
            if any(ty == 'bit' for a, ty, d in args):
                kw = framegen.method_kwargs(rng, sm)
                for a, ty, d in args:
                    if ty == 'bit':
                        kw[a] = False
                rec.add('RoundTrip', props, nt=True, label='class-all-flags-false', **actions.roundtrip(framegen.class_of(name)(**kw), 2))


def mutate_in_place(rng, v, depth=0):
    """change a container (dict / list / bytearray) in place; returns False when there is nothing to change"""
    if isinstance(v, dict):
        c = rng.random()
        if v and c < 0.3:
            del v[rng.choice(list(v))]
        elif v and c < 0.5 and depth < 3:
            k = rng.choice(list(v))
            if not mutate_in_place(rng, v[k], depth + 1):
                v[k] = rng.randint(0, 70000)
        else:
            v['x-new-%d' % rng.randint(0, 9)] = rng.choice([1, 'v', [1], {'n': 1}, True])
        return True
    if isinstance(v, list):
        if v and rng.random() < 0.5:
            i = rng.randrange(len(v))
            if not mutate_in_place(rng, v[i], depth + 1):
                v[i] = rng.randint(0, 70000)
        else:
            v.append(rng.choice([2, 'w', None]))
        return True
    if isinstance(v, bytearray):
        v.extend(b'\x01\xce')
        return True
    return False


def encode_mutate_encode(ctx, props, values, frames):
    """the SAME object encoded, changed in place (key added / removed, nested element replaced, a refused element
    repaired), encoded again: the second result is a function of the current contents only"""
    import copy
    from pamqp import base, header
    rec, rng = ctx.rec, ctx.rng
    for v in values:
        if not isinstance(v, (dict, list)):
            continue
        v = copy.deepcopy(v)
        pos = 'table' if isinstance(v, dict) and rng.random() < 0.5 else 'top'
        rec.add('EncodeValue', props, nt=True, label='before-mutation', **actions.encode_value(v, pos))
        for _ in range(2):
            mutate_in_place(rng, v)
            rec.add('EncodeValue', props, nt=True, label='after-mutation', **actions.encode_value(v, pos))
    # a refused element repaired in place
    for bad, fix in ((1 << 64, 2), (1e39, 1.5), ('\ud800', 'ok')):
        for shape in (lambda x: {'a': 1, 'x-retries': [1, x], 'b': {'c': [x]}, 'd': 4}, lambda x: [{'k': x}, [x]], lambda x: {'k': {'j': x}, 'l': 1, 'm': 2, 'n': 3}):
            v = shape(bad)
            rec.add('EncodeValue', props, nt=True, label='refused', **actions.encode_value(v, 'top'))
            v2 = shape(fix)
            # repair IN PLACE: same outer object
            if isinstance(v, dict):
                v.clear()
                v.update(v2)
            else:
                v[:] = v2
            rec.add('EncodeValue', props, nt=True, label='repaired-in-place', **actions.encode_value(v, 'top'))
    for f in frames:
        tgt = f.properties.headers if isinstance(f, header.ContentHeader) else None
        if isinstance(f, base.Frame):
            for a in type(f).__slots__:
                if isinstance(getattr(f, a, None), dict):
                    tgt = getattr(f, a)
        if not isinstance(tgt, dict):
            continue
        rec.add('RoundTrip', props, nt=True, label='before-mutation', **actions.roundtrip(f, 4))
        for _ in range(2):
            mutate_in_place(rng, tgt)
            rec.add('RoundTrip', props, nt=True, label='after-mutation', **actions.roundtrip(f, 4))


def header_failure_pairs(ctx, props, n):
    """content headers: a well-framed header whose property list stops early (after 0, 1, 2 ... complete properties),
    immediately followed by a valid header carrying a DISJOINT set of properties"""
    import struct
    import wiregen
    rec, rng = ctx.rec, ctx.rng
    for _ in range(n):
        flags = (rng.getrandbits(13) << 3) | 0x8000 if rng.random() < 0.5 else (rng.getrandbits(13) << 3)
        flags &= 0xFFF8
        if not flags:
            flags = 0xA000
        payload = wiregen.header_payload(rng, lenient=False, flags=flags)
        other = (~flags) & 0xFFF8 & (rng.getrandbits(16) | 0x1000)
        good = wiregen.envelope(2, 5, wiregen.header_payload(rng, lenient=False, flags=other))
        cuts = sorted(set(range(14, min(len(payload), 40))) | {len(payload) - 1, len(payload) - 2, (14 + len(payload)) // 2})
        for c in [x for x in cuts if 14 <= x < len(payload)][:12]:
            rec.add('Unmarshal', props, nt=True, label='header-fail', **actions.unmarshal(wiregen.envelope(2, 5, payload[:c])))
            rec.add('Unmarshal', props, nt=True, label='header-after-fail', wf=True, **actions.unmarshal(good))


def negotiation_then_content(ctx, props, action):
    """a Connection.Tune / TuneOk with a non-zero frame_max is marshalled, then bodies around that size: whatever was
    negotiated, frame.marshal emits ONE body frame and the peeked size + 8 is its length"""
    from pamqp import body, commands, frame
    rec, rng = ctx.rec, ctx.rng
    for fm in (4096, 8192):
        for cls in (commands.Connection.Tune, commands.Connection.TuneOk):
            t = cls(channel_max=10, frame_max=fm, heartbeat=60)
            if action == 'Peek':
                rec.add('Peek', props, nt=True, **actions.peek(t, 0, b''))
            else:
                rec.add('RoundTrip', props, nt=True, **actions.roundtrip(t, 0))
            for n in (fm - 9, fm - 8, fm - 7, fm, 2 * fm + 100):
                b = body.ContentBody(bytes(rng.getrandbits(8) for _ in range(n)))
                if action == 'Peek':
                    rec.add('Peek', props, nt=True, **actions.peek(b, 3, b'xy'))
                else:
                    rec.add('RoundTrip', props, nt=True, **actions.roundtrip(b, 3))
    # leave the defaults behind
    frame.marshal(commands.Connection.TuneOk(), 0)
    frame.marshal(commands.Connection.Tune(), 0)


def cross_thread_toggles(ctx, props):
    """the switch is process-global: set in one thread, changed in another, read in the first"""
    import queue
    import threading
    rec = ctx.rec
    q, done = queue.Queue(), queue.Queue()

    def worker():
        while True:
            job = q.get()
            if job is None:
                return
            done.put(job())
    t = threading.Thread(target=worker)
    t.start()
    try:
        for a_mode, b_mode in (('noarg', 'false'), ('false', 'true'), ('true', 'false')):
            q.put(lambda m=a_mode: actions.toggle(m))
            rec.add('Toggle', props, nt=True, thread='worker', **done.get())
            rec.add('Toggle', props, nt=True, thread='main', **actions.toggle(b_mode))
            for x in (40000, 3000000000, [65535, {'k': 2 ** 31}]):
                q.put(lambda v=x: actions.encode_value(v, 'top'))
                rec.add('EncodeValue', props, nt=True, thread='worker', **done.get())
                rec.add('EncodeValue', props, nt=True, thread='main', **actions.encode_value(x, 'top'))
    finally:
        q.put(None)
        t.join()
    rec.add('Toggle', props, **actions.toggle('false'))


def ambient_decimal_context(ctx, props):
    """the application owns decimal.getcontext() (precision, rounding, traps): a codec call must not depend on it"""
    import decimal
    from pamqp import commands, header
    rec, rng = ctx.rec, ctx.rng
    D = decimal.Decimal
    vals = [D('1234.5678'), D('-21474836.47'), D('0.000001'), D('2147483647'), D('1E+3'), D('12345678.9'), D('-0.5'),
            gen.rand_decimal_fitting(rng), gen.rand_decimal_fitting(rng)]
    settings = [dict(prec=1), dict(prec=3), dict(prec=6, rounding=decimal.ROUND_FLOOR), dict(prec=50), dict(prec=4, Emax=9, Emin=-9),
                dict(prec=6, trap=True)]
    for st_ in (settings if not ctx.quick else settings[:4] + settings[5:]):
        with decimal.localcontext() as c:
            c.prec = st_['prec']
            if 'rounding' in st_:
                c.rounding = st_['rounding']
            if 'Emax' in st_:
                c.Emax, c.Emin = st_['Emax'], st_['Emin']
            if st_.get('trap'):
                c.traps[decimal.Inexact] = True
                c.traps[decimal.Rounded] = True
            for v in vals:
                rec.add('EncodeValue', props, nt=True, label='decimal-context', **actions.encode_value(v, 'top'))
                rec.add('EncodeValue', props, nt=True, label='decimal-context', **actions.encode_value({'price': v, 'l': [v]}, 'table'))
            h = header.ContentHeader(0, 1, commands.Basic.Properties(headers={'amount': vals[0], 'fee': vals[2]}, priority=1))
            rec.add('RoundTrip', props, nt=True, label='decimal-context', **actions.roundtrip(h, 1))
            rec.add('RoundTrip', props, nt=True, label='decimal-context', **actions.roundtrip(
                commands.Queue.Declare(queue='q', arguments={'x-price': vals[1]}), 1))


def conn_sessions(ctx, props):
    """S2C: conversations generated by TLC from Conn.tla are spoken with real frames: each scripted frame is built and
    marshalled by pamqp, the two directions travel as byte streams cut at random places, the receiving side decodes with
    frame.unmarshal and reports ONLY what the decoder handed it (channel, type of object, .name, .synchronous,
    .valid_responses, frame_max / channel_max, body_size, len(body), bytes consumed)."""
    import json as _json
    from pamqp import body, commands, exceptions, frame, header, heartbeat
    from abstraction import class_by_name
    rec, rng = ctx.rec, ctx.rng
    path = ctx.gen.get('conversations')
    if not path:
        return
    convs = [_json.loads(l)['conv'] for l in open(path)]
    byname = {sm[0]: sm for sm in framegen.METHODS}

    def build(e):
        k = e['kind']
        if k == 'proto':
            return header.ProtocolHeader(0, 9, 1)
        if k == 'heartbeat':
            return heartbeat.Heartbeat()
        if k == 'header':
            h = framegen.rand_header(rng, rng.getrandbits(13) & rng.getrandbits(13))
            h.body_size = e['size']
            try:
                if len(frame.marshal(h, 1)) <= 4000:
                    return h
            except Exception:  # noqa
                pass
            return header.ContentHeader(0, e['size'], None)
        if k == 'body':
            chunk = bytes(rng.getrandbits(8) for _ in range(min(e['size'], 512)))
            return body.ContentBody((chunk * (e['size'] // 512 + 1))[:e['size']])
        name = e['name']
        if name in ('Connection.Tune', 'Connection.TuneOk'):
            return class_by_name(name)(channel_max=e['cm'], frame_max=e['fm'], heartbeat=rng.choice([0, 60, 580]))
        for attempt in range(6):
            f = framegen.rand_method(rng, byname[name])
            try:                      # (the generator also produces arguments the encoder must refuse)
                if len(frame.marshal(f, 1)) <= 4000:
                    return f
            except Exception:  # noqa
                pass
        return class_by_name(name)()

    for ci, conv in enumerate(convs):
        if not mine(ctx, ci):
            continue
        rec.add('ConnReset', props)
        wire = {'c': b'', 's': b''}       # bytes written by each side, not yet delivered
        buf = {'c': b'', 's': b''}        # receive buffer of the OTHER side, per sending direction
        queue = {'c': [], 's': []}        # scripted frames in flight per direction

        def report(d, got, want, mlen):
            """got: (n, ch, f) from the decoder, or an exception"""
            ev = {'dir': d, 'ch': -1, 'kind': 'refused', 'name': '', 'size': 0, 'wire': 0, 'fm': 0, 'cm': 0,
                  'sync': False, 'resp': [], 'want': want, 'mlen': mlen}
            if isinstance(got, tuple):
                n, ch, f = got
                kind = {'ProtocolHeader': 'proto', 'Heartbeat': 'heartbeat', 'ContentHeader': 'header',
                        'ContentBody': 'body'}.get(type(f).__name__, 'method')
                ev.update(ch=as_int(ch), kind=kind, wire=as_int(n))
                if kind == 'method':
                    ev['name'] = str(getattr(f, 'name', '?'))
                    ev['sync'] = bool(getattr(f, 'synchronous', False))
                    ev['resp'] = [str(x) for x in getattr(f, 'valid_responses', [])]
                    if ev['name'] in ('Connection.Tune', 'Connection.TuneOk'):
                        ev['fm'], ev['cm'] = as_int(f.frame_max), as_int(f.channel_max)
                elif kind == 'header':
                    ev['size'] = as_int(f.body_size)
                elif kind == 'body':
                    ev['size'] = as_int(len(f.value))
            else:
                ev['exc'] = type(got).__name__
            rec.add('ConnFrame', props, nt=True, **ev)

        def deliver(d, everything):
            # the receiver knows nothing of the script: it decodes whenever bytes arrive.  The HARNESS knows where the
            # scripted frames end (their marshalled lengths), so a frame the decoder refuses, or a wrong consumed count,
            # is reported once and the stream is re-synchronised at the next scripted frame boundary.
            while wire[d]:
                k = len(wire[d]) if (everything and rng.random() < 0.4) else rng.randint(1, max(1, min(len(wire[d]), rng.choice([1, 7, 8, 50, 5000, 200000]))))
                buf[d] += wire[d][:k]
                wire[d] = wire[d][k:]
                while buf[d] and queue[d]:
                    want, mlen = queue[d][0]
                    try:
                        got = actions.unmarshal3(buf[d])
                    except exceptions.UnmarshalingException as e_:
                        if len(buf[d]) < mlen:
                            break                     # incomplete: wait for more data
                        got = e_                      # a complete scripted frame is in the buffer and was refused
                    except Exception as e_:  # noqa
                        got = e_
                    queue[d].pop(0)
                    report(d, got, want, mlen)
                    buf[d] = buf[d][mlen:]            # (== the consumed count whenever the decoder is right)
                if not everything and rng.random() < 0.5:
                    return

        for i, e in enumerate(conv):
            d = e['dir']
            other = 'c' if d == 's' else 's'
            deliver(other, True)          # what the peer sent before is received before this side speaks (causality)
            f = build(e)
            b = frame.marshal(f, e['ch'])
            wire[d] += b
            queue[d].append(({k: e[k] for k in ('dir', 'ch', 'kind', 'name', 'size', 'fm', 'cm')}, len(b)))
            nxt = conv[i + 1] if i + 1 < len(conv) else None
            deliver(d, nxt is None or nxt['dir'] != d or rng.random() < 0.5)
        deliver('c', True)
        deliver('s', True)
        rec.add('ConnQuiesce', props, nt=True, left=len(buf['c']) + len(buf['s']) + len(wire['c']) + len(wire['s']),
                inflight=len(queue['c']) + len(queue['s']))


_KEEP = []       # referents of weak proxies stay alive for the life of the driver


def exotic_but_accepted(ctx, props, frames=True):
    """values the encoder accepts by isinstance(): bytes-like bodies the caller may go on using (bytearray, memoryview),
    instances of FRESH subclasses of every accepted type (two new classes per call, so that each is seen for the first
    time), weak proxies of containers -- first one kind then the other, so that anything remembered per type() shows"""
    import collections
    import datetime as dtm
    import decimal
    import enum
    import weakref
    from pamqp import body, commands, header
    rec, rng = ctx.rec, ctx.rng
    n = len(_KEEP)

    def fresh(base, *a):
        cls = type('V%d%s' % (len(_KEEP), base.__name__), (base,), {})
        o = cls(*a)
        _KEEP.append(o)
        return o
    E = enum.IntEnum('E%d' % n, {'A': 1, 'B': 40000, 'C': 3000000000})
    for rnd in range(2):
        order = [fresh(list, [1, 'x']), fresh(dict, {'k': 1}), fresh(int, 70000), fresh(str, 'text'), fresh(bytes, b'raw'),
                 fresh(bytearray, b'ba'), fresh(float, 1.5), fresh(decimal.Decimal, '3.14'), fresh(collections.OrderedDict, [('b', 1), ('a', 2)]),
                 E.B, E.C, collections.OrderedDict([('z', 1), ('y', [1, 2])]), collections.defaultdict(int, {'d': 5}),
                 fresh(dtm.datetime, 2020, 5, 17, 12, 0, 0, 0, dtm.timezone.utc)]
        if rnd:
            order.reverse()
        for v in order:
            rec.add('EncodeValue', props, nt=True, label='subclass', **actions.encode_value(v, 'top'))
            rec.add('EncodeValue', props, nt=True, label='subclass', **actions.encode_value({'v': v, 'l': [v]}, 'table'))
    # weak proxies: isinstance() looks through them, type() does not
    pl, pd = fresh(list, [1, 2, 3]), fresh(dict, {'p': 1})
    for first, second in ((pl, pd), (pd, pl)):
        for target in (first, second):
            try:
                px = weakref.proxy(target)
                rec.add('EncodeValue', props, nt=True, label='proxy', **actions.encode_value({'v': px}, 'table'))
            except TypeError:
                pass
    if frames:
        for mk in (bytearray, memoryview, bytes):
            for n_ in (1, 5, 206, 4096):
                raw = bytes((i * 7 + n_) % 256 for i in range(n_ - 1)) + b'\xce'
                rec.add('RoundTrip', props, nt=True, label='bytes-like body', **actions.roundtrip(body.ContentBody(mk(raw)), 3))
        tbl = fresh(dict, {'x-max-length': 10})
        rec.add('RoundTrip', props, nt=True, label='subclass', **actions.roundtrip(commands.Queue.Declare(queue=fresh(str, 'q'), arguments=tbl), 1))
        rec.add('RoundTrip', props, nt=True, label='subclass', **actions.roundtrip(
            header.ContentHeader(0, 1, commands.Basic.Properties(headers=collections.OrderedDict([('b', 1), ('a', E.A)]), priority=E.A)), 1))


def truncated_size_prefixes(ctx, props):
    """body frames whose declared size has bits above 8 / 16 / 24 / 31 set (frames too large to build here): the few bytes
    supplied are a strict prefix of a valid body frame whatever they are, and they carry 0xCE exactly where a size read
    through a narrower or signed field would look for the frame end"""
    import struct
    rec = ctx.rec
    idx = 0
    for bits in (8, 16, 24, 31, 32):
        for m in (1, 2, 255):
            for r in (0, 1, 2, 5):
                size = ((m << bits) + r) & 0xFFFFFFFF if bits < 32 else (0xFFFFFFFF - r)
                if size < 16 or size < r + 8:
                    continue
                idx += 1
                if not mine(ctx, idx):
                    continue
                for ch in (1, 0xCECE):
                    for content in (b'X' * r + b'\xce', b'\xce' * (r + 3), b'X' * r + b'\xce' + b'\x03\x00\x01\x00\x00\x00\x01Y\xce', b'X' * r):
                        buf = struct.pack('>BHI', 3, ch, size) + content
                        rec.add('Unmarshal', props, nt=True, label='size-trunc-%d' % bits, **actions.unmarshal(buf, extra={'body_prefix': True}))


def under_legacy(ctx, props, frames=True):
    """features meeting the legacy-integer switch: every leaf kind (booleans, floats, decimals, strings, timestamps, None,
    byte arrays) and confusable siblings (1 / True / 1.0 / Decimal(1)) inside tables and arrays while the switch is ON --
    only the integer tags may change"""
    import decimal
    from pamqp import commands, header
    rec, rng = ctx.rec, ctx.rng
    rec.add('Toggle', props, **actions.toggle('true'))
    leaves = [True, False, 0, 1, -1, 127, 128, 255, 256, 40000, 65535, 65536, 3000000000, -2147483649, 2 ** 63 - 1, -2 ** 63,
              1.0, -0.0, 1.5, decimal.Decimal(1), decimal.Decimal('1.0'), decimal.Decimal('-3.14'), 'text', '', b'raw'.decode(), None,
              bytearray(b'ba'), gen.rand_datetime_in_range(rng)]
    for v in leaves:
        rec.add('EncodeValue', props, nt=True, label='under-legacy', **actions.encode_value(v, 'top'))
    for grp in gen.CONFUSABLE:
        for a in grp:
            for b in grp:
                rec.add('EncodeValue', props, nt=True, label='under-legacy', **actions.encode_value([a, b], 'array'))
                rec.add('EncodeValue', props, nt=True, label='under-legacy', **actions.encode_value({'a': a, 'b': [b, {'c': a}]}, 'table'))
    tbl = {'flag': True, 'off': False, 'n': 40000, 'big': 3000000000, 'neg': -2147483649, 'l': [True, 1, False, 0, [True]], 't': {'x': True, 'y': 65535}}
    rec.add('EncodeValue', props, nt=True, label='under-legacy', **actions.encode_value(tbl, 'table'))
    frs = []
    if frames in (True, 'methods'):
        frs += [commands.Queue.Declare(queue='q', durable=True, arguments=dict(tbl)),
                commands.Connection.StartOk(client_properties={'capabilities': {'publisher_confirms': True, 'basic.nack': True, 'n': 65535}}),
                commands.Basic.Consume(queue='q', no_ack=True, arguments={'x-priority': 40000, 'x-cancel-on-ha-failover': True})]
    if frames in (True, 'headers'):
        frs += [header.ContentHeader(0, 5, commands.Basic.Properties(headers=dict(tbl), priority=1, delivery_mode=2)),
                header.ContentHeader(0, 5, commands.Basic.Properties(headers={'l': [True, 2], 'b': False}))]
    for fr in frs:
        rec.add('RoundTrip', props, nt=True, label='under-legacy', **actions.roundtrip(fr, 1))
    rec.add('Toggle', props, **actions.toggle('false'))


def colliding_long_keys(ctx, props):
    """names longer than 128 characters that agree in their first 128: emitted in full-name order under the same shortened
    name, whatever their values are (descending, unorderable, equal)"""
    rec = ctx.rec
    P128 = 'p' * 128
    cases = [{P128 + '-a': 2, P128 + '-b': 1}, {P128 + '-b': 1, P128 + '-a': 2}, {P128 + '-a': {'x': 1}, P128 + '-b': 'str', P128: None},
             {P128 + 'z': 'last', P128: 'first', P128 + 'a': [1]}, {'a': 1, P128 + '2': 5, P128 + '1': 9, 'zz': 0},
             {'outer': {P128 + '-a': 2, P128 + '-b': 1}, 'arr': [{P128 + 'y': 1, P128 + 'x': 2}]}]
    for t in cases:
        rec.add('EncodeValue', props, nt=True, label='colliding-long-keys', **actions.encode_value(t, 'table'))
        rec.add('EncodeValue', props, nt=True, label='colliding-long-keys', **actions.encode_value([t], 'array'))
    from pamqp import commands
    rec.add('RoundTrip', props, nt=True, label='colliding-long-keys', **actions.roundtrip(commands.Queue.Declare(queue='q', arguments=cases[0]), 1))


def decode_mutate_encode(ctx, props, values=True):
    """objects and tables that came OUT of the decoder are the caller's to change: a key that sorts before / between / after
    the existing ones is inserted in place (at every level), an element is replaced, and the object is encoded again --
    the bytes are the reference's for the NEW contents, whatever the decoder remembered about the old ones"""
    from pamqp import commands, decode as _dec, encode as _enc, frame, header
    rec = ctx.rec
    xdeath = {'x-death': [{'count': 1, 'queue': 'q', 'reason': 'expired', 'time': gen.rand_datetime_in_range(ctx.rng)}],
              'x-first-death-queue': 'q', 'x-death-count': 3}
    frames = [commands.Queue.Declare(queue='q', arguments={'x-max-length': 10, 'x-message-ttl': 60000}),
              commands.Basic.Consume(queue='q', arguments={'x-priority': 5}),
              commands.Connection.StartOk(client_properties={'product': 'p', 'capabilities': {'basic.nack': True, 'publisher_confirms': True}}),
              header.ContentHeader(0, 3, commands.Basic.Properties(headers=dict(xdeath), priority=1)),
              header.ContentHeader(0, 3, commands.Basic.Properties(headers={'m': 1, 'z': {'b': 1, 'y': 2}}))]

    def poke(t):
        t['aaa-first'] = 1
        t['n-middle'] = 'mid'
        t['zzz-last'] = None
        for v in list(t.values()):
            if isinstance(v, dict):
                v['a0'] = 0
                v['zz'] = 9
            elif isinstance(v, list):
                for x in v:
                    if isinstance(x, dict):
                        x['a0'] = 0
                        x['zz'] = 9
    for f in frames:
        try:
            n_, ch_, g = actions.unmarshal3(frame.marshal(f, 1))
        except Exception:  # noqa
            continue
        rec.add('RoundTrip', props, nt=True, label='decoded-unchanged', **actions.roundtrip(g, 1))
        tbl = g.properties.headers if hasattr(g, 'properties') else next((getattr(g, a) for a in type(g).__slots__ if isinstance(getattr(g, a, None), dict)), None)
        if isinstance(tbl, dict):
            poke(tbl)
            rec.add('RoundTrip', props, nt=True, label='decoded-then-changed', **actions.roundtrip(g, 1))
            del tbl['aaa-first']
            rec.add('RoundTrip', props, nt=True, label='decoded-then-changed', **actions.roundtrip(g, 1))
    if values:
        for t in (xdeath, {'b': 1, 'd': 2}, {'k': {'b': 1, 'y': 2}, 'l': [{'m': 1, 'x': 2}]}):
            try:
                n_, w = _dec.field_table(_enc.field_table(t))
            except Exception:  # noqa
                continue
            rec.add('EncodeValue', props, nt=True, label='decoded-unchanged', **actions.encode_value(w, 'table'))
            poke(w)
            rec.add('EncodeValue', props, nt=True, label='decoded-then-changed', **actions.encode_value(w, 'table'))
            rec.add('EncodeValue', props, nt=True, label='decoded-then-changed', **actions.encode_value([w], 'array'))


def marshal_failure_then(ctx, props, action='RoundTrip', kinds='all'):
    """a marshal call that is REFUSED (each kind of frame, each kind of refusal, raised at different depths of the encoder)
    immediately followed by valid frames of every kind: whatever the refused call left behind (a scratch buffer, a
    half-filled memo, a counter) shows in the frames that follow"""
    from pamqp import body, commands, frame, header, heartbeat
    rec, rng = ctx.rec, ctx.rng
    refused = [lambda: frame.marshal(body.ContentBody('text'), 5), lambda: frame.marshal(body.ContentBody(12345), 5),
               lambda: frame.marshal(commands.Basic.Publish(exchange='ex', routing_key=b'rk'), 3),
               lambda: frame.marshal(commands.Queue.Declare(queue='q', arguments={'a': 1, 'k': object()}), 3),
               lambda: frame.marshal(commands.Basic.Qos(prefetch_count=-1), 2),
               lambda: frame.marshal(commands.Exchange.Bind(destination='d', source='s', routing_key=None), 2),
               lambda: frame.marshal(header.ContentHeader(0, 1, commands.Basic.Properties(content_type='t', headers={'a': 1, 'k': 1 << 70})), 4),
               lambda: frame.marshal(header.ContentHeader(0, -1, commands.Basic.Properties(priority=1)), 4),
               lambda: frame.marshal(commands.Basic.Ack(delivery_tag=1), 70000), lambda: frame.marshal(object(), 1),
               lambda: frame.marshal(header.ProtocolHeader(0, 9, 300), 0)]
    for bad in refused:
        try:
            with __import__('observers').wall():
                bad()
        except BaseException as e_:  # noqa
            if isinstance(e_, (KeyboardInterrupt, SystemExit, __import__('observers').GiveUp)):
                raise
        followers = [framegen.rand_method(rng), commands.Basic.Publish(exchange='e', routing_key='rk', mandatory=True),
                     commands.Exchange.Bind(destination='d', source='s', routing_key='k', nowait=True, arguments={'z': 1}),
                     header.ContentHeader(0, 10, commands.Basic.Properties(content_type='t', priority=3)), body.ContentBody(b'payload\xce'),
                     heartbeat.Heartbeat(), commands.Queue.Declare(queue='q2', durable=True, arguments={'x': 2})]
        if kinds == 'methods':
            followers = [f for f in followers if hasattr(f, 'synchronous')]
        elif kinds == 'headers':
            followers = [f for f in followers if isinstance(f, header.ContentHeader)] + [
                header.ContentHeader(0, 1, commands.Basic.Properties(app_id='app', message_id='m1', delivery_mode=2))]
        elif kinds == 'other':
            followers = [f for f in followers if not hasattr(f, 'synchronous') and not isinstance(f, header.ContentHeader)]
        for fr in followers:
            if action == 'Peek':
                ev = actions.peek(fr, 7, b'')
                if ev is not None:
                    rec.add('Peek', props, nt=True, label='after-refused-marshal', **ev)
            else:
                rec.add('RoundTrip', props, nt=True, label='after-refused-marshal', **actions.roundtrip(fr, 7))


def reentrant_callbacks(ctx, props, kinds='all'):
    """a value the caller passed in calls BACK into the library while it is being encoded (the utcoffset() of a tzinfo is
    consulted in the middle of a table): the inner call marshals / encodes / decodes something else and returns. Both the
    outer and the inner result must be what they are without the nesting (scratch buffers, shared work lists, module-level
    'current frame' objects show here, in one thread and deterministically)"""
    import datetime as dtm
    from pamqp import body, commands, encode as _enc, frame, header
    rec = ctx.rec
    captured = []

    class CallsBack(dtm.tzinfo):
        def __init__(self, inner):
            self.inner = inner

        def utcoffset(self, d):
            try:
                captured.append(self.inner())
            except Exception as e_:  # noqa
                captured.append(e_)
            return dtm.timedelta(hours=2)

        def dst(self, d):
            return dtm.timedelta(0)

        def tzname(self, d):
            return 'CB'

        def __deepcopy__(self, memo):
            return self

    inner_frames = [commands.Queue.Declare(queue='audit', durable=True, arguments={'inner': 1}),
                    commands.Basic.Publish(exchange='inner-ex', routing_key='inner-rk', mandatory=True),
                    header.ContentHeader(0, 7, commands.Basic.Properties(content_type='inner/type', priority=7, headers={'in': 'ner'})),
                    body.ContentBody(b'inner-body')]
    inners = [(lambda f_=f_: frame.marshal(f_, 9), f_) for f_ in inner_frames]
    inners.append((lambda: _enc.field_table({'inner-a': 1, 'inner-b': [1, 2]}), None))
    good = frame.marshal(commands.Basic.Ack(delivery_tag=77, multiple=True), 3)
    inners.append((lambda: frame.unmarshal(good), None))
    for call, inner_frame in inners:
        def outers(tz):
            when = dtm.datetime(2021, 3, 4, 5, 6, 7, tzinfo=tz)
            out = []
            if kinds in ('all', 'methods'):
                out += [commands.Queue.Declare(queue='orders', passive=False, durable=True, arguments={'a-first': 1, 'm-when': when, 'z-last': 'end'}),
                        commands.Basic.Consume(queue='orders', consumer_tag='ctag', no_ack=True, arguments={'when': when})]
            if kinds in ('all', 'headers'):
                out += [header.ContentHeader(0, 11, commands.Basic.Properties(content_type='outer/type', headers={'k': 1, 'when': when}, priority=2, app_id='outer')),
                        header.ContentHeader(0, 11, commands.Basic.Properties(content_type='outer/type', timestamp=when, app_id='outer'))]
            return out
        for k_ in range(len(outers(None))):
            del captured[:]
            fr = outers(CallsBack(call))[k_]
            ev = actions.roundtrip(fr, 5)
            rec.add('RoundTrip', props, nt=True, label='re-entrant-outer', **ev)
            got = [c for c in captured if isinstance(c, (bytes, bytearray))]
            if inner_frame is not None and got and kinds == 'all':
                ev2 = actions.roundtrip(inner_frame, 9)          # the structure of the event; the bytes are the ones produced INSIDE
                ev2['out'] = {'r': 'ok', 'b': list(got[0])}
                ev2['un'], _ = actions.do_unmarshal(bytes(got[0]))
                ev2['re'] = {'r': 'skip'}
                ev2['out2'] = {'r': 'ok', 'b': list(got[0])}
                rec.add('RoundTrip', props, nt=True, label='re-entrant-inner', **ev2)
    if kinds == 'all':
        for call, inner_frame in inners[:3]:
            del captured[:]
            when = dtm.datetime(2021, 3, 4, 5, 6, 7, tzinfo=CallsBack(call))
            rec.add('EncodeValue', props, nt=True, label='re-entrant-outer', **actions.encode_value({'a': 1, 'when': when, 'z': [when, 2]}, 'table'))


def unrepresentable_strings(ctx, props):
    """short strings of more than 255 octets (the length prefix is ONE octet) in every place the send-side validation does
    not look at: they have no encoding; refused, never emitted with a clamped or wrapped length"""
    from pamqp import commands, header
    rec = ctx.rec
    longs = ['k' * 256, 'k' * 257, 'k' * 300, 'k' * 1000, '\u2708' * 86, '\u00e9' * 128, 'a' + '\u20ac' * 85, 'z' * 65536]
    for sx in longs:
        rec.add('EncodeArg', props, nt=True, unrep=True, **actions.encode_arg('shortstr', sx))
        for mk in (lambda: commands.Basic.Publish(routing_key=sx), lambda: commands.Basic.Consume(queue='q', consumer_tag=sx),
                   lambda: commands.Connection.StartOk(mechanism=sx), lambda: commands.Basic.Cancel(consumer_tag=sx),
                   lambda: commands.Connection.Close(reply_text=sx), lambda: commands.Basic.Return(reply_text=sx),
                   lambda: header.ContentHeader(0, 1, commands.Basic.Properties(content_type=sx)),
                   lambda: header.ContentHeader(0, 1, commands.Basic.Properties(message_id='m', app_id=sx, priority=1))):
            try:
                fr = mk()
            except ValueError:      # (send-side validation already refuses it at construction: not this family's business)
                continue
            rec.add('RoundTrip', props, nt=True, unrep=True, **actions.roundtrip(fr, 1))
        if len(sx) <= 128:          # (longer names are shortened to 128 CHARACTERS first, which may still be too many octets)
            rec.add('EncodeValue', props, nt=True, unrep=True, **actions.encode_value({sx: 1}, 'table'))
            rec.add('EncodeValue', props, nt=True, unrep=True, **actions.encode_value({'a': {sx: 1}}, 'table'))
    try:
        rec.add('RoundTrip', props, nt=True, unrep=True, **actions.roundtrip(commands.Queue.Declare(queue='q' * 256), 1))
    except ValueError:
        pass


def stale_header_pairs(ctx, props):
    """two decodes in a row whose 7-byte headers agree in some fields and differ in others (type / channel / size), the
    first incomplete, complete or refused: nothing of the first header may survive into the second decode"""
    import struct
    import wiregen
    rec, rng = ctx.rec, ctx.rng
    idx = 0

    def body_frame(t, ch, n):
        if t == 3:
            return wiregen.envelope(3, ch, bytes((i * 5 + n) % 256 for i in range(n)))
        if t == 8:
            return wiregen.envelope(8, ch, b'')
        if t == 1:
            return wiregen.envelope(1, ch, struct.pack('>HH', 60, 80) + struct.pack('>Q', n) + b'\x00')       # Basic.Ack(n)
        return wiregen.envelope(2, ch, struct.pack('>HHQH', 60, 0, n, 0x1000) + bytes([n % 10]))                # header, priority
    for t in (1, 2, 3):
        for ch in (0, 1, 65535):
            for n1, n2 in ((5, 9), (9, 5), (5, 300), (300, 5), (20, 21)):
                a, b = body_frame(t, ch, n1), body_frame(t, ch, n2)
                other = body_frame(t, ch + 1 if ch < 65535 else 2, n2)
                for cut in (7, 8, len(a) - 1):
                    idx += 1
                    if not mine(ctx, idx):
                        continue
                    # (bytes, the valid frame they are a strict prefix of -- or None)
                    def pre(x, k):
                        return x[:min(k, len(x) - 1)]
                    pairs = (((pre(a, cut), a), (b + b'tail', None)), ((pre(a, cut), a), (other, None)), ((a, None), (pre(b, len(a)), b)),
                             ((a + b'x', None), (b, None)), ((a[:-1] + b'\x00', None), (b, None)), ((pre(b, cut), b), (a[:cut] + b'\xce' * 12, None)),
                             ((a, None), (pre(b, cut), b)), ((b, None), (pre(a, len(a)), a)), ((pre(a, cut), a), (pre(b, cut + 1), b)))
                    for (first, f1), (second, f2) in pairs:
                        rec.add('Unmarshal', props, nt=True, label='stale-1', **actions.unmarshal(first, extra={'full': list(f1)} if f1 else None))
                        rec.add('Unmarshal', props, nt=True, label='stale-2', **actions.unmarshal(second, extra={'full': list(f2)} if f2 else None))


def _with_conn(name):
    inner = DRIVERS[name]

    def run(ctx):
        inner(ctx)
        conn_sessions(ctx, [name])
    DRIVERS[name] = run


for _p in ('C06', 'C14', 'C18', 'C20'):
    _with_conn(_p)
