"""--replay: re-execute the failing event on the CURRENT working tree where the action can be rebuilt from its
abstract inputs (the stateless actions); otherwise the recorded observation is re-judged as it is."""
import actions
from abstraction import concrete, concrete_frame


STATELESS = {'EncodeValue', 'EncodeArg', 'EncodeFixed', 'Unmarshal', 'DecodeValue', 'FrameParts', 'CutSet', 'RoundTrip'}


def _last(ev):
    a = ev['a']
    keep = {k: ev[k] for k in ('id', 'a', 'p', 'nt', 'sigx', 'label', 'session') if k in ev}
    try:
        # only inputs that are rebuilt FAITHFULLY from their projection are executed again
        from abstraction import abstract, a_frame
        if a in ('EncodeValue', 'EncodeArg', 'EncodeFixed') and abstract(concrete(ev['in'])) != ev['in']:
            return ev, False
        if a == 'RoundTrip' and (a_frame(concrete_frame(ev['in'])) != ev['in'] or not isinstance(ev['ch'], int)
                                 or (ev['in']['cls'] == 'ContentBody' and not ev['in']['b'])):
            return ev, False
        if a == 'EncodeValue':
            new = actions.encode_value(concrete(ev['in']), ev['pos'])
        elif a == 'EncodeArg':
            new = actions.encode_arg(ev['ty'], concrete(ev['in']))
        elif a == 'EncodeFixed':
            new = actions.encode_fixed(ev['fn'], concrete(ev['in']))
        elif a == 'Unmarshal':
            new = actions.unmarshal(bytes(ev['b']), budget=True, memory='peak' in ev and ev.get('peak', -1) >= 0)
            if 'wf' in ev:
                new['wf'] = ev['wf']
        elif a == 'DecodeValue':
            new = actions.decode_value(bytes(ev['b']), ev['pos'])
        elif a == 'FrameParts':
            new = actions.frame_parts(bytes(ev['b']))
        elif a == 'CutSet':
            new = actions.cutset(bytes(ev['b']), [c['k'] for c in ev['cuts']])
        elif a == 'RoundTrip':
            new = actions.roundtrip(concrete_frame(ev['in']), ev['ch'])
        else:
            return ev, False
    except Exception:  # noqa  (an input that cannot be rebuilt from its projection)
        return ev, False
    keep.update(new)
    return keep, True


def reexecute(events):
    if not events:
        return events
    last, done = _last(events[-1])
    print('replay: %s %s' % (events[-1]['a'], 're-executed on the current tree' if done else 're-judged as recorded'))
    return events[:-1] + [last]
